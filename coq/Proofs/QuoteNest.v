(* C06, inline layer: the fragments that fragQuote produces are properly nested -- every opening tag of a quote definition is
   followed, after a properly nested run of fragments, by the closing tag of the same definition.  For every text, fuel and table
   of quote definitions. *)
From Rimu Require Import Base Unicode Regex RegexAnalysis RegexParse Str Types Tables Guards State Inline.
From Coq Require Import Lia.

Inductive nested (qs : list qdef) : list frag -> Prop :=
| nest_nil : nested qs []
| nest_text t rest : nested qs rest -> nested qs (undone t :: rest)
| nest_verbatim t rest : nested qs rest -> nested qs (done t :: rest)       (* the content of a quote that does not nest *)
| nest_pair d mid rest : In d qs -> nested qs mid -> nested qs rest ->
    nested qs (done (q_open d) :: mid ++ done (q_close d) :: rest).

Lemma quote_getDefinition_In qs q d : quote_getDefinition qs q = Some d -> In d qs.
Proof.
  induction qs as [|d' qs IH]; simpl; [discriminate|]. destruct (str_eqb (q_quote d') q).
  - intros H. inversion H; subst. left. reflexivity.
  - intros H. right. auto.
Qed.

Theorem fragQuote_nested qs qre : forall n text l, fragQuote n qs qre text = Ok l -> nested qs l.
Proof.
  induction n as [|n IH]; intros text l H; cbn [fragQuote] in H; [discriminate|].
  destruct (find_quote n qre text 0) as [[m|]|e|]; try discriminate.
  2:{ inversion H; subst. apply nest_text. constructor. }
  destruct (quote_getDefinition qs (grp_s m 1)) as [d|] eqn:Ed; [|discriminate].
  apply quote_getDefinition_In in Ed.
  set (q0 := hd 0 (grp_s m 1)) in *. set (after0 := dropN (m_end m) text) in *.
  set (quoted := grp_s m 2 ++ takeN (fst (count_lead q0 after0)) after0) in *.
  set (after := snd (count_lead q0 after0)) in *.
  destruct (negb (q_spans d)).
  - destruct (fragQuote n qs qre after) as [rest|e|] eqn:Er; try discriminate. inversion H; subst.
    apply nest_text. apply (nest_pair qs d [done (replace_char 0 1 (escape quoted))] rest Ed).
    + apply nest_verbatim. constructor.
    + eapply IH; eauto.
  - destruct (fragQuote n qs qre quoted) as [mid|e|] eqn:Em; try discriminate.
    destruct (fragQuote n qs qre after) as [rest|e|] eqn:Er; try discriminate. inversion H; subst.
    apply nest_text. apply (nest_pair qs d mid rest Ed); eapply IH; eauto.
Qed.

Lemma nested_app qs a : nested qs a -> forall b, nested qs b -> nested qs (a ++ b).
Proof.
  induction 1 as [|t rest _ IH|t rest _ IH|d mid rest Hd Hm _ Hr IH]; intros b Hb; cbn [app]; auto.
  - apply nest_text. auto.
  - apply nest_verbatim. auto.
  - rewrite <- app_assoc. cbn [app]. apply nest_pair; auto.
Qed.

(* fragments that came from replacements are opaque to the quotes pass *)
Definition opaque_ok (frags : list frag) : Prop := forall f, In f frags -> f_done f = true -> exists t, f = done t.

Lemma nested_unescape qs (u : str -> str) l : nested qs l ->
  nested qs (map (fun f => if f_done f then f else mkFrag (u (f_text f)) false (f_verb f)) l).
Proof.
  induction 1 as [|t rest _ IH|t rest _ IH|d mid rest Hd Hm IHm Hr IHr]; cbn [map f_done undone done f_text f_verb].
  - constructor.
  - apply (nest_text qs (u t)). exact IH.
  - apply nest_verbatim. exact IH.
  - rewrite map_app. cbn [map f_done done]. apply nest_pair; auto.
Qed.

Theorem fragQuotes_nested qs n frags l : opaque_ok frags -> fragQuotes n qs frags = Ok l -> nested qs l.
Proof.
  intros Hop H. unfold fragQuotes in H.
  destruct (res_concat_map _ frags) as [l0|e|] eqn:E; try discriminate. inversion H; subst. apply nested_unescape.
  clear H. revert l0 E. induction frags as [|f frags IH]; intros l0 E; cbn [res_concat_map] in E.
  - inversion E. constructor.
  - destruct (if f_done f then Ok [f] else fragQuote n qs (quotesRe qs) (f_text f)) as [a|e|] eqn:Ea; try discriminate.
    destruct (res_concat_map _ frags) as [b|e|] eqn:Eb; try discriminate. inversion E; subst.
    apply nested_app.
    + destruct (f_done f) eqn:Ef.
      * inversion Ea; subst. destruct (Hop f (or_introl eq_refl) Ef) as (t & ->). apply nest_verbatim. constructor.
      * eapply fragQuote_nested; eauto.
    + apply (IH (fun g Hg => Hop g (or_intror Hg)) b eq_refl).
Qed.

Corollary quotes_pass_nested qs n text l : fragQuotes n qs [undone text] = Ok l -> nested qs l.
Proof. apply fragQuotes_nested. intros f [<-|[]] Hd. discriminate. Qed.

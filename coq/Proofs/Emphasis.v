(* C07, a functional theorem about real markup: in plain text, *body* renders to <em>body</em>.
   spans.render of  pre * body * post  (pre, body, post over the plain alphabet, body starting and ending with a non-space)
   is  escape pre . <em> . escape body . </em> . escape post  -- for text of any length.
   The quote match is pinned down with the exact regex semantics: on  *body*post  every derivation of the generated quote
   pattern ends in the same state (the only default quote that is a prefix is the star itself, the back-reference forces the
   quoted text to stop at the first following star), and completeness shows that the match is found. *)
From Rimu Require Import Base Unicode Regex RegexSem RegexAnalysis RegexParse Str Types Tables Guards State Inline
  MatchLemmas Placeholder MatchExact ScanLemmas Plain.
From Coq Require Import Lia.
Local Open Scope monad_scope.

Definition star : char := 42.
Definition star_alphabet : list char := plain_alphabet ++ [star].

Definition repl_post_unescape : list cre :=
  map r_re replacements_default ++ [unescapeRe quotes_default; re_spans_postReplacements_0].

Lemma star_alphabet_ok : forallb (fun r => negb (okA star_alphabet (re_ast r))) repl_post_unescape = true.
Proof. vm_compute. reflexivity. Qed.

Lemma star_no_match_spec r : In r repl_post_unescape -> okA star_alphabet (re_ast r) = false.
Proof.
  intros Hr. pose proof star_alphabet_ok as H. rewrite forallb_forall in H. apply H in Hr. apply negb_true_iff in Hr. exact Hr.
Qed.

Section Repl.
Variable s : ienv.
Variable sr : str -> I str.

Lemma fragReplacements_star n t : forall defs,
  (forall d, In d defs -> In (r_re d) repl_post_unescape) -> over star_alphabet t ->
  fragReplacements s sr (S n) defs [undone t] = iret [undone t].
Proof.
  induction defs as [|d ds IH]; intros Hds Ht; cbn [fragReplacements]; [reflexivity|].
  cbn [iconcat_map undone f_done f_text fragReplacement].
  rewrite (re_search_none_over star_alphabet); [|apply star_no_match_spec, Hds; left; reflexivity|exact Ht].
  cbn [ibind iret app]. rewrite IH; auto. intros d' Hd'. apply Hds. right. exact Hd'.
Qed.
End Repl.

(* ---- facts about the plain alphabet and the generated quote pattern ---- *)
Definition qre := quotesRe quotes_default.

Definition qX : regex :=
  match re_ast qre with
  | RSeq _ (RSeq _ (RSeq (RGrp _ x) _)) => x
  | _ => REps
  end.

Lemma qre_shape : re_ast qre =
  RSeq (RRep true 0 (Some 1) (RLit 92)) (RSeq (RGrp 1 (quote_alts quotes_default)) (RSeq (RGrp 2 qX) (RBref 1))) /\
  re_groups qre = 2%nat /\ pure qX = true /\ wf_exact (re_ast qre) = true.
Proof. repeat split; reflexivity. Qed.

Definition qA1 : regex := match qX with RAlt a _ => a | _ => REps end.
Definition qB1 : regex := match qX with RAlt _ (RSeq b _) => b | _ => REps end.
Definition qMid : regex := match qX with RAlt _ (RSeq _ (RSeq (RRep _ _ _ m) _)) => m | _ => REps end.

Lemma qX_shape : exists negA itA itB itM,
  qX = RAlt (RSet negA itA) (RSeq (RSet false itB) (RSeq (RRep false 0 None (RSet false itM)) (RSet negA itA))) /\
  (forall x, nonspace x = true -> x <> 92 -> set_match negA itA x = true) /\
  (forall x, nonspace x = true -> set_match false itB x = true) /\
  (forall x, set_match false itM x = true).
Proof.
  eexists _, _, _, _. split; [reflexivity|]. split; [|split].
  - intros x Hn H92. unfold nonspace, set_match, in_items in *. cbn [existsb in_item xorb negb orb] in *.
    destruct (in_cat CatSpace x); cbn in Hn |- *; [discriminate|].
    assert (E : (92 <=? x) && (x <=? 92) = false).
    { apply andb_false_iff. destruct (N.leb_spec 92 x); [right; apply N.leb_gt; lia|left; reflexivity]. }
    rewrite E. reflexivity.
  - intros x Hn. exact Hn.
  - intros x. unfold set_match, in_items. cbn [existsb in_item xorb negb orb]. destruct (in_cat CatSpace x); reflexivity.
Qed.

Lemma plain_facts : forallb (fun x => negb (x =? star) && negb (x =? 92) && negb (first (re_ast qre) x)) plain_alphabet = true.
Proof. vm_compute. reflexivity. Qed.

Lemma plain_char x : In x plain_alphabet -> x <> star /\ x <> 92 /\ first (re_ast qre) x = false.
Proof.
  intros Hx. pose proof plain_facts as H. rewrite forallb_forall in H. apply H in Hx.
  apply andb_prop in Hx as [Hx H3]. apply andb_prop in Hx as [H1 H2].
  apply negb_true_iff in H1, H2, H3. apply N.eqb_neq in H1, H2. auto.
Qed.

(* the only default quote that is a prefix of  * x ...  with x not a star is the star *)
Lemma sole_prefix q x rest : In q (map q_quote quotes_default) -> x <> star ->
  (exists r', star :: x :: rest = q ++ r') -> q = [star].
Proof.
  intros Hq Hx (r' & E). cbn in Hq.
  repeat (destruct Hq as [<-|Hq]; [cbn in E; inversion E; subst; try reflexivity; try congruence|]); destruct Hq.
Qed.

Lemma split_at_first (c : char) post : (forall x, In x post -> x <> c) -> forall body w rest',
  (forall x, In x body -> x <> c) -> body ++ c :: post = w ++ c :: rest' -> w = body /\ rest' = post.
Proof.
  intros Hpost. induction body as [|a body IH]; intros w rest' Hb E.
  - destruct w as [|y w]; cbn in E.
    + injection E as E1. subst rest'. auto.
    + injection E as E1 E2. exfalso. apply (Hpost c); [|reflexivity]. rewrite E2. apply in_or_app. right. left. reflexivity.
  - destruct w as [|y w]; cbn in E.
    + injection E as E1 E2. exfalso. apply (Hb a); [left; reflexivity|exact E1].
    + injection E as E1 E2. subst y. destruct (IH w rest') as [-> ->]; auto. intros x Hx. apply Hb. right. exact Hx.
Qed.

(* ---- the quote match on  c body c post  for a one-character quote c ---- *)
Definition body_ok (body : str) : Prop :=
  over plain_alphabet body /\ exists b0 t, body = b0 :: t /\ nonspace b0 = true /\ nonspace (last body b0) = true.

Lemma body_cases (body : str) b0 t : body = b0 :: t -> t = [] \/ exists mid bl, t = mid ++ [bl] /\ last body b0 = bl.
Proof.
  intros ->. destruct t as [|x t]; [left; reflexivity|right].
  destruct (exists_last (l := x :: t) ltac:(discriminate)) as (mid & bl & E). exists mid, bl. split; [exact E|].
  rewrite E. clear. change (b0 :: mid ++ [bl]) with ((b0 :: mid) ++ [bl]). apply last_last.
Qed.

Section OneCharQuote.
Variable c : char.
Hypothesis Hc92 : c <> 92.
Hypothesis Hcq : In [c] (map q_quote quotes_default).
Hypothesis Hsole : forall q x rest, In q (map q_quote quotes_default) -> x <> c ->
  (exists r', c :: x :: rest = q ++ r') -> q = [c].

Definition q_final (i : N) (body post : str) : mst :=
  mkSt (i + 1 + lenN body + 1) (Some c) post
       [(2%nat, {| c_s := i + 1; c_e := i + 1 + lenN body; c_txt := body ++ c :: post |});
        (1%nat, {| c_s := i; c_e := i + 1; c_txt := c :: body ++ c :: post |})].

(* the quoted text: free of the quote character and of backslashes, starting and ending with a non-space *)
Definition qbody_ok (body : str) : Prop :=
  (forall x, In x body -> x <> c /\ x <> 92) /\
  exists b0 t, body = b0 :: t /\ nonspace b0 = true /\ nonspace (last body b0) = true.

Lemma q1_derivation i p body post s' : qbody_ok body -> (forall x, In x post -> x <> c) ->
  mx (re_ast qre) (mkSt i p (c :: body ++ c :: post) []) s' <-> s' = q_final i body post.
Proof.
  intros [Hbody (b0 & t & Eb & Hb0 & Hbl)] Hpost. destruct qre_shape as (Sh & _ & HpX & _). rewrite Sh. cbn [mx].
  assert (Hbs : forall x, In x body -> x <> c) by (intros x Hx; apply Hbody in Hx; tauto).
  assert (Hps : forall x, In x post -> x <> c) by exact Hpost.
  split.
  - intros (s1 & (n & Hbsl & _ & _) & s2 & (s1' & Hh & ->) & s3 & (s2' & HX & ->) & (g & rest' & p' & Hg & Hsp & ->)).
    assert (s1 = mkSt i p (c :: body ++ c :: post) []).
    { destruct n as [|n]; [exact Hbsl|]. exfalso. cbn [iterR mx] in Hbsl. destruct Hbsl as (sx & (z & tz & Hrz & Hz & _) & _).
      apply lit_match in Hz. subst z. cbn in Hrz. inversion Hrz. congruence. }
    subst s1.
    (* group 1: one of the quote strings, hence the c *)
    pose proof (mx_Matches _ _ _ Hh) as Mh. unfold quote_alts in Mh. rewrite <- map_map in Mh.
    apply Matches_ralt_rstr in Mh as (q & Hq & Cq & Kq).
    assert (Hpure : pure (quote_alts quotes_default) = true) by reflexivity.
    apply (pure_transport _ Hpure) in Hh as (wq & Eq & Pq & [Iq Cq'] & _).
    unfold consumed in Cq. cbn [st_rest st_p st_i st_c] in *.
    assert (wq = q) by (rewrite Eq in Cq; apply app_inv_tail in Cq; exact Cq). subst wq.
    assert (q = [c]).
    { rewrite Eb in Cq. cbn [app] in Cq. eapply (Hsole q b0 (t ++ c :: post)); [exact Hq| |eauto].
      apply Hbs. rewrite Eb. left. reflexivity. }
    subst q. cbn [app lenN last_of] in *. inversion Eq as [Er1]. clear Eq Cq.
    (* group 2 and the back-reference *)
    apply (pure_transport _ HpX) in HX as (w2 & E2 & P2 & [I2 C2] & _). cbn [st_rest st_p st_i st_c] in *.
    rewrite C2, Cq' in Hg. cbn [cap_get Nat.eqb] in Hg. inversion Hg; subst g. clear Hg.
    unfold cap_text in Hsp. cbn [c_s c_e c_txt] in Hsp. rewrite Iq in Hsp.
    replace (i + N.succ 0 - i) with 1 in Hsp by lia. cbn [takeN N.eqb Pos.eqb N.pred Pos.pred_N] in Hsp.
    replace (takeN 0 (body ++ c :: post)) with (@nil char) in Hsp by (destruct (body ++ c :: post); reflexivity).
    cbn [strip_prefix] in Hsp. destruct (st_rest s2') as [|y r2] eqn:Er2; [discriminate|].
    destruct (c =? y) eqn:Ey; [|discriminate]. apply N.eqb_eq in Ey. subst y. inversion Hsp; subst rest' p'. clear Hsp.
    rewrite <- Er1 in E2.
    destruct (split_at_first c post Hps body w2 r2 Hbs E2) as [-> ->].
    unfold q_final. cbn [c_s c_e]. rewrite I2, C2. cbn [st_i st_c]. rewrite Iq, Cq'. cbn [lenN].
    f_equal; try lia; repeat f_equal; lia.
  - intros ->. unfold q_final.
    exists (mkSt i p (c :: body ++ c :: post) []). split; [exists O; cbn; repeat split; lia|].
    exists (mkSt (i + 1) (Some c) (body ++ c :: post) [(1%nat, {| c_s := i; c_e := i + 1; c_txt := c :: body ++ c :: post |})]).
    split.
    { exists (mkSt (i + 1) (Some c) (body ++ c :: post) []). split; [|reflexivity].
      unfold quote_alts. apply (mx_ralt_intro _ (rstr [c])).
      - apply in_map_iff in Hcq as (d0 & Hd0 & Hin0). apply in_map_iff. exists d0. rewrite Hd0. auto.
      - exact (mx_rstr_intro [c] i p (body ++ c :: post) [] ltac:(discriminate)). }
    exists (mkSt (i + 1 + lenN body) (last_of (Some c) body) (c :: post)
                 [(2%nat, {| c_s := i + 1; c_e := i + 1 + lenN body; c_txt := body ++ c :: post |});
                  (1%nat, {| c_s := i; c_e := i + 1; c_txt := c :: body ++ c :: post |})]). split.
    { exists (mkSt (i + 1 + lenN body) (last_of (Some c) body) (c :: post)
                   [(1%nat, {| c_s := i; c_e := i + 1; c_txt := c :: body ++ c :: post |})]).
      split; [|reflexivity]. destruct qX_shape as (negA & itA & itB & itM & -> & HA & HB & HM). cbn [mx].
      assert (H92 : forall x, In x body -> x <> 92) by (intros x Hx; apply Hbody in Hx; tauto).
      destruct (body_cases body b0 t Eb) as [->|(mid & bl & -> & Ebl)].
      - left. subst body. exists b0, (c :: post). cbn. split; [reflexivity|]. split; [|reflexivity].
        apply HA; [exact Hb0|apply H92; left; reflexivity].
      - right. subst body. rewrite Ebl in Hbl.
        assert (En : (b0 :: mid ++ [bl]) ++ c :: post = b0 :: mid ++ bl :: c :: post)
          by (cbn; rewrite <- app_assoc; reflexivity).
        rewrite En.
        assert (El : last_of (Some c) (b0 :: mid ++ [bl]) = Some bl).
        { clear. cbn. generalize (Some b0). induction mid as [|x mid IH]; intros o; [reflexivity|]. cbn. apply IH. }
        assert (Ln : lenN (b0 :: mid ++ [bl]) = 1 + lenN mid + 1) by (cbn [lenN]; rewrite lenN_app; cbn [lenN]; lia).
        rewrite El, Ln.
        set (cap1 := (1%nat, {| c_s := i; c_e := i + 1; c_txt := c :: b0 :: mid ++ bl :: c :: post |})).
        exists (mkSt (i + 1 + 1) (Some b0) (mid ++ bl :: c :: post) [cap1]).
        split; [exists b0, (mid ++ bl :: c :: post); cbn [st_rest st_i st_p st_c]; repeat split; apply HB; exact Hb0|].
        exists (mkSt (i + 1 + 1 + lenN mid) (last_of (Some b0) mid) (bl :: c :: post) [cap1]).
        split.
        + exists (length mid). split; [apply iter_set_intro; intros; apply HM|]. split; [lia|exact Logic.I].
        + exists bl, (c :: post). cbn [st_rest st_i st_p st_c]. split; [reflexivity|]. split.
          * apply HA; [exact Hbl|apply H92; right; apply in_or_app; right; left; reflexivity].
          * f_equal. lia. }
    exists {| c_s := i; c_e := i + 1; c_txt := c :: body ++ c :: post |}, post, (Some c).
    cbn [st_c cap_get Nat.eqb st_rest st_p st_i]. split; [reflexivity|]. split.
    { unfold cap_text. cbn [c_s c_e c_txt]. replace (i + 1 - i) with 1 by lia. cbn. rewrite N.eqb_refl. destruct (body ++ c :: post); reflexivity. }
    cbn [c_s c_e]. f_equal. lia.
Qed.

Lemma q1_match pre body post : (forall x, In x pre -> first (re_ast qre) x = false) -> qbody_ok body -> (forall x, In x post -> x <> c) ->
  exists m, re_search qre (pre ++ c :: body ++ c :: post) = Some m /\
    m_start m = lenN pre /\ m_end m = lenN pre + lenN (c :: body ++ [c]) /\
    m_groups m = [Some (c :: body ++ [c]); Some [c]; Some body].
Proof.
  intros Hpre Hbody Hpost. destruct qre_shape as (_ & Hng & _ & Hwf).
  assert (Hn : nullable (re_ast qre) = false) by reflexivity.
  destruct (exec_exact _ Hwf) as [S C].
  set (i := lenN pre). set (p := last_of None pre).
  assert (Hex : match_at qre i p (c :: body ++ c :: post) <> None).
  { apply (proj2 (match_at_iff _ _ _ _ Hwf)). exists (q_final i body post). apply q1_derivation; auto. }
  unfold match_at in Hex.
  destruct (exec (re_ast qre) kfinal i p (c :: body ++ c :: post) []) as [[e cc]|] eqn:E; [|cbn in Hex; congruence].
  pose proof E as E'. apply S in E' as (s' & M & Hk). apply (q1_derivation i p body post s' Hbody Hpost) in M. subst s'.
  unfold kapp, kfinal, q_final in Hk. cbn in Hk. inversion Hk; subst e cc. clear Hk.
  eexists. split.
  - unfold re_search. rewrite (search_from_skip qre Hn pre 0 None _ Hpre).
    rewrite N.add_0_l. fold i p. cbn [search_from]. unfold match_at. rewrite E. reflexivity.
  - cbn [option_map mk_mres m_start m_end m_groups]. split; [reflexivity|].
    split; [cbn [lenN]; rewrite lenN_app; cbn [lenN]; lia|].
    rewrite Hng. cbn [group_list cap_get Nat.eqb option_map]. unfold cap_text. cbn [c_s c_e c_txt].
    replace (i + 1 + lenN body + 1 - i) with (lenN (c :: body ++ [c])) by (cbn [lenN]; rewrite lenN_app; cbn [lenN]; lia).
    replace (i + 1 - i) with (lenN [c]) by (cbn; lia).
    replace (i + 1 + lenN body - (i + 1)) with (lenN body) by lia.
    replace (c :: body ++ c :: post) with ((c :: body ++ [c]) ++ post) by (cbn; rewrite <- app_assoc; reflexivity).
    rewrite takeN_app_exact.
    replace ((c :: body ++ [c]) ++ post) with ([c] ++ body ++ c :: post) by (cbn; rewrite <- app_assoc; reflexivity).
    rewrite takeN_app_exact. rewrite takeN_app_exact. reflexivity.
Qed.

End OneCharQuote.

(* ---- the star ---- *)
Definition em_final := q_final star.

Lemma star_sole : forall q x rest, In q (map q_quote quotes_default) -> x <> star ->
  (exists r', star :: x :: rest = q ++ r') -> q = [star].
Proof. exact sole_prefix. Qed.

Lemma star_in : In [star] (map q_quote quotes_default).
Proof. cbn. auto. Qed.

Lemma body_ok_q body : body_ok body -> qbody_ok star body.
Proof.
  intros [Hb Hs]. split; [|exact Hs]. intros x Hx. apply Hb in Hx. apply plain_char in Hx. tauto.
Qed.

Lemma plain_not_star post : over plain_alphabet post -> forall x, In x post -> x <> star.
Proof. intros H x Hx. apply H in Hx. apply plain_char in Hx. tauto. Qed.

Lemma em_derivation i p body post s' : body_ok body -> over plain_alphabet post ->
  mx (re_ast qre) (mkSt i p (star :: body ++ star :: post) []) s' <-> s' = em_final i body post.
Proof.
  intros Hb Hp. apply (q1_derivation star ltac:(discriminate) star_in star_sole); [apply body_ok_q; exact Hb|apply plain_not_star; exact Hp].
Qed.

Lemma em_match pre body post : over plain_alphabet pre -> body_ok body -> over plain_alphabet post ->
  exists m, re_search qre (pre ++ star :: body ++ star :: post) = Some m /\
    m_start m = lenN pre /\ m_end m = lenN pre + lenN (star :: body ++ [star]) /\
    m_groups m = [Some (star :: body ++ [star]); Some [star]; Some body].
Proof.
  intros Hpre Hb Hp. apply (q1_match star ltac:(discriminate) star_in star_sole); [|apply body_ok_q; exact Hb|apply plain_not_star; exact Hp].
  intros x Hx. apply Hpre in Hx. apply plain_char in Hx. tauto.
Qed.

Lemma count_lead_none (c : char) (s : str) : (forall x, In x s -> x <> c) -> count_lead c s = (0, s).
Proof.
  destruct s as [|x t]; [reflexivity|]. intros H. cbn [count_lead].
  replace (x =? c) with false; [reflexivity|]. symmetry. apply N.eqb_neq. apply H. left. reflexivity.
Qed.

Lemma em_def : quote_getDefinition quotes_default [star] = Some (mkQ [star] $"<em>" $"</em>" true).
Proof. reflexivity. Qed.

Lemma fragQuote_step n qs qre0 text m d : find_quote n qre0 text 0 = Ok (Some m) ->
  quote_getDefinition qs (grp_s m 1) = Some d -> q_spans d = true ->
  fragQuote (S n) qs qre0 text =
  (let q0 := hd 0 (grp_s m 1) in
   let after0 := dropN (m_end m) text in
   let lead := fst (count_lead q0 after0) in
   let after := snd (count_lead q0 after0) in
   let quoted := grp_s m 2 ++ takeN lead after0 in
   match fragQuote n qs qre0 quoted with
   | Fuel => Fuel | Raise e => Raise e
   | Ok mid => match fragQuote n qs qre0 after with
               | Fuel => Fuel | Raise e => Raise e
               | Ok rest => Ok (undone (takeN (m_start m) text) :: done (q_open d) :: mid ++ done (q_close d) :: rest)
               end
   end).
Proof. intros H Hd Hs. cbn [fragQuote]. rewrite H, Hd, Hs. reflexivity. Qed.

Lemma find_quote_first n qre0 text m : re_search qre0 text = Some m -> starts_with [92] (grp0 m) = false ->
  find_quote (S n) qre0 text 0 = Ok (Some m).
Proof.
  intros H Hs. cbn [find_quote]. unfold re_search_pos.
  assert (E : skip_to 0 0 None text = (0, None, text)) by (destruct text; reflexivity).
  rewrite E. fold (re_search qre0 text). rewrite H, Hs. reflexivity.
Qed.

Lemma fragQuote_em n pre body post : over plain_alphabet pre -> body_ok body -> over plain_alphabet post ->
  fragQuote (S (S (S n))) quotes_default qre (pre ++ star :: body ++ star :: post) =
  Ok [undone pre; done $"<em>"; undone body; done $"</em>"; undone post].
Proof.
  intros Hpre Hbody Hpost. destruct (em_match pre body post Hpre Hbody Hpost) as (m & Hm & Hst & Hen & Hg).
  assert (Hps : forall x, In x post -> x <> star) by (intros x Hx; apply Hpost in Hx; apply plain_char in Hx; tauto).
  set (T := pre ++ star :: body ++ star :: post) in *.
  assert (G0 : grp0 m = star :: body ++ [star]) by (unfold grp0, grp_s, grp; rewrite Hg; reflexivity).
  assert (G1 : grp_s m 1 = [star]) by (unfold grp_s, grp; rewrite Hg; reflexivity).
  assert (G2 : grp_s m 2 = body) by (unfold grp_s, grp; rewrite Hg; reflexivity).
  assert (Hf : find_quote (S (S n)) qre T 0 = Ok (Some m)) by (apply find_quote_first; [exact Hm|rewrite G0; reflexivity]).
  rewrite (fragQuote_step (S (S n)) quotes_default qre T m (mkQ [star] $"<em>" $"</em>" true) Hf); [|rewrite G1; exact em_def|reflexivity].
  cbv zeta. rewrite G1, G2. cbn [hd q_open q_close].
  assert (Ha : dropN (m_end m) T = post).
  { rewrite Hen. unfold T. replace (pre ++ star :: body ++ star :: post) with (pre ++ (star :: body ++ [star]) ++ post)
      by (cbn; rewrite <- app_assoc; reflexivity).
    rewrite dropN_app_plus. apply dropN_app_exact. }
  assert (Hb : takeN (m_start m) T = pre) by (rewrite Hst; unfold T; apply takeN_app_exact).
  rewrite Ha, Hb, (count_lead_none star post Hps). cbn [fst snd].
  replace (takeN 0 post) with (@nil char) by (destruct post; reflexivity). rewrite app_nil_r.
  destruct Hbody as [Hbp _].
  change qre with (quotesRe quotes_default).
  rewrite (fragQuote_plain n body Hbp). rewrite (fragQuote_plain n post Hpost). reflexivity.
Qed.

(* characters of the rendered text *)
Definition em_alphabet : list char := plain_alphabet ++ $"&amp;gtl" ++ $"<em>/".
Lemma em_alphabet_ok : okA em_alphabet (re_ast re_spans_postReplacements_0) = false.
Proof. vm_compute. reflexivity. Qed.

Theorem spans_render_em n s pre body post :
  defaults s -> over plain_alphabet pre -> body_ok body -> over plain_alphabet post ->
  spans_render (S (S (S (S n)))) s (pre ++ star :: body ++ star :: post) =
  iret (escape pre ++ $"<em>" ++ escape body ++ $"</em>" ++ escape post).
Proof.
  intros [Hr Hq] Hpre Hbody Hpost. cbn [spans_render]. unfold spans_body. rewrite Hr, Hq.
  assert (HT : over star_alphabet (pre ++ star :: body ++ star :: post)).
  { unfold star_alphabet. intros x Hx. apply in_or_app. apply in_app_or in Hx as [Hx|[<-|Hx]]; [left; auto|right; left; reflexivity|].
    apply in_app_or in Hx as [Hx|[<-|Hx]]; [left; apply Hbody; exact Hx|right; left; reflexivity|left; auto]. }
  assert (Hin : forall d, In d replacements_default -> In (r_re d) repl_post_unescape).
  { intros d Hd. unfold repl_post_unescape. apply in_or_app. left. apply in_map. exact Hd. }
  rewrite (fragReplacements_star s _ _ _ replacements_default Hin HT).
  cbn [ibind iret filter undone f_done app].
  unfold frag_placeholder_text. cbn [flat_map undone f_done f_text]. rewrite ?app_nil_r.
  unfold fragQuotes. cbn [res_concat_map undone f_done f_text].
  fold qre. rewrite (fragQuote_em n pre body post Hpre Hbody Hpost).
  cbn [app map undone done f_done f_text f_verb of_res iret ibind flat_map].
  assert (Hun : forall t, over plain_alphabet t -> quotes_unescape quotes_default t = t).
  { intros t Ht. unfold quotes_unescape. apply (re_sub_none_over plain_alphabet); [apply no_match_spec, unescapeRe_in|exact Ht]. }
  destruct Hbody as [Hbp _]. rewrite (Hun pre Hpre), (Hun body Hbp), (Hun post Hpost). rewrite ?app_nil_r.
  rewrite (re_scan_none_over em_alphabet); [|exact em_alphabet_ok|].
  - cbn [postReplacements of_res iret ibind app]. rewrite ?app_nil_r. reflexivity.
  - assert (He : forall t, over plain_alphabet t -> forall x, In x (escape t) -> In x em_alphabet).
    { intros t Ht x Hx. unfold em_alphabet. apply in_escape in Hx as [Hx|Hx]; apply in_or_app; [left; auto|right; apply in_or_app; left; exact Hx]. }
    assert (Htag : forall x, In x ($"<em>") \/ In x ($"</em>") -> In x em_alphabet).
    { intros x Hx. unfold em_alphabet. apply in_or_app. right. apply in_or_app. right. cbn in *. intuition. }
    intros x Hx. repeat (apply in_app_or in Hx as [Hx|Hx]); eauto.
Qed.

(* ---- C09: the code quote: `body` renders to <code>body</code>, and a star inside it is not markup ---- *)
Definition tick : char := 96.
Definition code_alphabet : list char := plain_alphabet ++ [star].
Definition tick_alphabet : list char := plain_alphabet ++ [star; tick].

Lemma tick_alphabet_ok : forallb (fun r => negb (okA tick_alphabet (re_ast r))) repl_post_unescape = true.
Proof. vm_compute. reflexivity. Qed.

Section ReplTick.
Variable s : ienv.
Variable sr : str -> I str.
Lemma fragReplacements_tick n t : forall defs,
  (forall d, In d defs -> In (r_re d) repl_post_unescape) -> over tick_alphabet t ->
  fragReplacements s sr (S n) defs [undone t] = iret [undone t].
Proof.
  induction defs as [|d ds IH]; intros Hds Ht; cbn [fragReplacements]; [reflexivity|].
  cbn [iconcat_map undone f_done f_text fragReplacement].
  assert (Hno : okA tick_alphabet (re_ast (r_re d)) = false).
  { pose proof tick_alphabet_ok as H. rewrite forallb_forall in H. specialize (H (r_re d) (Hds d (or_introl eq_refl))).
    apply negb_true_iff in H. exact H. }
  rewrite (re_search_none_over tick_alphabet _ _ Hno Ht).
  cbn [ibind iret app]. rewrite IH; auto. intros d' Hd'. apply Hds. right. exact Hd'.
Qed.
End ReplTick.

Lemma tick_sole : forall q x rest, In q (map q_quote quotes_default) -> x <> tick ->
  (exists r', tick :: x :: rest = q ++ r') -> q = [tick].
Proof.
  intros q x rest Hq Hx (r' & E). cbn in Hq.
  repeat (destruct Hq as [<-|Hq]; [cbn in E; inversion E; subst; try reflexivity; try congruence|]); destruct Hq.
Qed.

Lemma tick_in : In [tick] (map q_quote quotes_default).
Proof. cbn. auto 10. Qed.

Definition code_body_ok (body : str) : Prop :=
  over code_alphabet body /\ exists b0 t, body = b0 :: t /\ nonspace b0 = true /\ nonspace (last body b0) = true.

Lemma code_char x : In x code_alphabet -> x <> tick /\ x <> 92 /\ x <> 0.
Proof.
  intros Hx. assert (H : forallb (fun y => negb (y =? tick) && negb (y =? 92) && negb (y =? 0)) code_alphabet = true) by (vm_compute; reflexivity).
  rewrite forallb_forall in H. apply H in Hx. apply andb_prop in Hx as [Hx H3]. apply andb_prop in Hx as [H1 H2].
  apply negb_true_iff in H1, H2, H3. apply N.eqb_neq in H1, H2, H3. auto.
Qed.

Lemma plain_not_tick x : In x plain_alphabet -> x <> tick.
Proof. intros Hx. apply (code_char x). unfold code_alphabet. apply in_or_app. left. exact Hx. Qed.

Lemma code_match pre body post : over plain_alphabet pre -> code_body_ok body -> over plain_alphabet post ->
  exists m, re_search qre (pre ++ tick :: body ++ tick :: post) = Some m /\
    m_start m = lenN pre /\ m_end m = lenN pre + lenN (tick :: body ++ [tick]) /\
    m_groups m = [Some (tick :: body ++ [tick]); Some [tick]; Some body].
Proof.
  intros Hpre [Hb Hs] Hp. apply (q1_match tick ltac:(discriminate) tick_in tick_sole).
  - intros x Hx. apply Hpre in Hx. apply plain_char in Hx. tauto.
  - split; [|exact Hs]. intros x Hx. apply Hb in Hx. apply code_char in Hx. tauto.
  - intros x Hx. apply plain_not_tick. auto.
Qed.

Lemma code_def : quote_getDefinition quotes_default [tick] = Some (mkQ [tick] $"<code>" $"</code>" false).
Proof. reflexivity. Qed.

Lemma fragQuote_step_verbatim n qs qre0 text m d : find_quote n qre0 text 0 = Ok (Some m) ->
  quote_getDefinition qs (grp_s m 1) = Some d -> q_spans d = false ->
  fragQuote (S n) qs qre0 text =
  (let q0 := hd 0 (grp_s m 1) in
   let after0 := dropN (m_end m) text in
   let lead := fst (count_lead q0 after0) in
   let after := snd (count_lead q0 after0) in
   let quoted := grp_s m 2 ++ takeN lead after0 in
   match fragQuote n qs qre0 after with
   | Fuel => Fuel | Raise e => Raise e
   | Ok rest => Ok (undone (takeN (m_start m) text) :: done (q_open d) :: [done (replace_char 0 1 (escape quoted))] ++ done (q_close d) :: rest)
   end).
Proof. intros H Hd Hs. cbn [fragQuote]. rewrite H, Hd, Hs. reflexivity. Qed.

Lemma replace_char_absent (a b : char) : forall t : str, (forall x, In x t -> x <> a) -> replace_char a b t = t.
Proof.
  induction t as [|x t IH]; intros H; [reflexivity|]. unfold replace_char in *. cbn [map].
  replace (x =? a) with false by (symmetry; apply N.eqb_neq; apply H; left; reflexivity).
  f_equal. apply IH. intros y Hy. apply H. right. exact Hy.
Qed.

Lemma fragQuote_code n pre body post : over plain_alphabet pre -> code_body_ok body -> over plain_alphabet post ->
  fragQuote (S (S (S n))) quotes_default qre (pre ++ tick :: body ++ tick :: post) =
  Ok [undone pre; done $"<code>"; done (escape body); done $"</code>"; undone post].
Proof.
  intros Hpre Hbody Hpost. destruct (code_match pre body post Hpre Hbody Hpost) as (m & Hm & Hst & Hen & Hg).
  assert (Hps : forall x, In x post -> x <> tick) by (intros x Hx; apply plain_not_tick; auto).
  set (T := pre ++ tick :: body ++ tick :: post) in *.
  assert (G0 : grp0 m = tick :: body ++ [tick]) by (unfold grp0, grp_s, grp; rewrite Hg; reflexivity).
  assert (G1 : grp_s m 1 = [tick]) by (unfold grp_s, grp; rewrite Hg; reflexivity).
  assert (G2 : grp_s m 2 = body) by (unfold grp_s, grp; rewrite Hg; reflexivity).
  assert (Hf : find_quote (S (S n)) qre T 0 = Ok (Some m)) by (apply find_quote_first; [exact Hm|rewrite G0; reflexivity]).
  rewrite (fragQuote_step_verbatim (S (S n)) quotes_default qre T m (mkQ [tick] $"<code>" $"</code>" false) Hf); [|rewrite G1; exact code_def|reflexivity].
  cbv zeta. rewrite G1, G2. cbn [hd q_open q_close].
  assert (Ha : dropN (m_end m) T = post).
  { rewrite Hen. unfold T. replace (pre ++ tick :: body ++ tick :: post) with (pre ++ (tick :: body ++ [tick]) ++ post)
      by (cbn; rewrite <- app_assoc; reflexivity).
    rewrite dropN_app_plus. apply dropN_app_exact. }
  assert (Hb : takeN (m_start m) T = pre) by (rewrite Hst; unfold T; apply takeN_app_exact).
  rewrite Ha, Hb, (count_lead_none tick post Hps). cbn [fst snd].
  replace (takeN 0 post) with (@nil char) by (destruct post; reflexivity). rewrite app_nil_r.
  change qre with (quotesRe quotes_default). rewrite (fragQuote_plain n post Hpost).
  rewrite replace_char_absent; [reflexivity|].
  intros x Hx. apply in_escape in Hx as [Hx|Hx].
  - destruct Hbody as [Hb0 _]. apply Hb0 in Hx. apply code_char in Hx. tauto.
  - cbn in Hx. intuition; subst; discriminate.
Qed.

Definition code_out_alphabet : list char := plain_alphabet ++ [star] ++ $"&amp;gtl" ++ $"<code>/".
Lemma code_out_alphabet_ok : okA code_out_alphabet (re_ast re_spans_postReplacements_0) = false.
Proof. vm_compute. reflexivity. Qed.

Theorem spans_render_code n s pre body post :
  defaults s -> over plain_alphabet pre -> code_body_ok body -> over plain_alphabet post ->
  spans_render (S (S (S (S n)))) s (pre ++ tick :: body ++ tick :: post) =
  iret (escape pre ++ $"<code>" ++ escape body ++ $"</code>" ++ escape post).
Proof.
  intros [Hr Hq] Hpre Hbody Hpost. cbn [spans_render]. unfold spans_body. rewrite Hr, Hq.
  assert (HT : over tick_alphabet (pre ++ tick :: body ++ tick :: post)).
  { unfold tick_alphabet. intros x Hx. apply in_or_app. apply in_app_or in Hx as [Hx|[<-|Hx]]; [left; auto|right; right; left; reflexivity|].
    apply in_app_or in Hx as [Hx|[<-|Hx]]; [|right; right; left; reflexivity|left; auto].
    destruct Hbody as [Hb0 _]. apply Hb0 in Hx. unfold code_alphabet in Hx. apply in_app_or in Hx as [Hx|[<-|[]]]; [left; exact Hx|right; left; reflexivity]. }
  assert (Hin : forall d, In d replacements_default -> In (r_re d) repl_post_unescape).
  { intros d Hd. unfold repl_post_unescape. apply in_or_app. left. apply in_map. exact Hd. }
  rewrite (fragReplacements_tick s _ _ _ replacements_default Hin HT).
  cbn [ibind iret filter undone f_done app].
  unfold frag_placeholder_text. cbn [flat_map undone f_done f_text]. rewrite ?app_nil_r.
  unfold fragQuotes. cbn [res_concat_map undone f_done f_text].
  fold qre. rewrite (fragQuote_code n pre body post Hpre Hbody Hpost).
  cbn [app map undone done f_done f_text f_verb of_res iret ibind flat_map].
  assert (Hun : forall t, over plain_alphabet t -> quotes_unescape quotes_default t = t).
  { intros t Ht. unfold quotes_unescape. apply (re_sub_none_over plain_alphabet); [apply no_match_spec, unescapeRe_in|exact Ht]. }
  rewrite (Hun pre Hpre), (Hun post Hpost). rewrite ?app_nil_r.
  rewrite (re_scan_none_over code_out_alphabet); [|exact code_out_alphabet_ok|].
  - cbn [postReplacements of_res iret ibind app]. rewrite ?app_nil_r. reflexivity.
  - assert (He : forall t, over plain_alphabet t -> forall x, In x (escape t) -> In x code_out_alphabet).
    { intros t Ht x Hx. unfold code_out_alphabet. apply in_escape in Hx as [Hx|Hx]; apply in_or_app; [left; auto|right; apply in_or_app; right; apply in_or_app; left; exact Hx]. }
    assert (Heb : forall x, In x (escape body) -> In x code_out_alphabet).
    { intros x Hx. unfold code_out_alphabet. apply in_escape in Hx as [Hx|Hx].
      - destruct Hbody as [Hb0 _]. apply Hb0 in Hx. unfold code_alphabet in Hx. rewrite app_assoc. apply in_or_app. left. exact Hx.
      - apply in_or_app. right. apply in_or_app. right. apply in_or_app. left. exact Hx. }
    assert (Htag : forall x, In x ($"<code>") \/ In x ($"</code>") -> In x code_out_alphabet).
    { intros x Hx. unfold code_out_alphabet. apply in_or_app. right. apply in_or_app. right. apply in_or_app. right. cbn in *. intuition. }
    intros x Hx. repeat (apply in_app_or in Hx as [Hx|Hx]); eauto.
Qed.

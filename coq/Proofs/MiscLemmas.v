(* Smaller lemmas used by several property files: escaping, policies, guards, reset,
   slug freshness, blanking of reserved characters, tag-pair facts on the generated tables. *)
From Rimu Require Import Base Regex RegexParse Str Types Tables Guards State Inline Block
  Frame FrameBlock FrameInst OptionsLemmas.
From Coq Require Import Lia.
Local Open Scope monad_scope.

(* ---- utils.replaceSpecialChars ---- *)
Lemma escape_char_no_lt_gt x : ~ In 60 (escape_char x) /\ ~ In 62 (escape_char x).
Proof.
  unfold escape_char.
  destruct (x =? 38) eqn:E1; [cbv; split; intros H; repeat (destruct H as [H|H]; [discriminate|]); exact H|].
  destruct (x =? 62) eqn:E2; [cbv; split; intros H; repeat (destruct H as [H|H]; [discriminate|]); exact H|].
  destruct (x =? 60) eqn:E3; [cbv; split; intros H; repeat (destruct H as [H|H]; [discriminate|]); exact H|].
  apply N.eqb_neq in E2, E3. split; intros [H|[]]; subst; contradiction.
Qed.

Theorem escape_no_lt_gt s : ~ In 60 (escape s) /\ ~ In 62 (escape s).
Proof.
  unfold escape. induction s as [|x s [IH1 IH2]]; simpl; [split; intros []|].
  destruct (escape_char_no_lt_gt x) as [H1 H2].
  split; intros H; apply in_app_or in H as [H|H]; auto.
Qed.

(* every '&' of an escaped string is followed by "amp;", "gt;" or "lt;" *)
Fixpoint amp_ok (s : str) : bool :=
  match s with
  | [] => true
  | x :: t => (if x =? 38 then starts_with $"amp;" t || starts_with $"gt;" t || starts_with $"lt;" t else true)
              && amp_ok t
  end.

Lemma amp_ok_escape s : amp_ok (escape s) = true.
Proof.
  unfold escape. induction s as [|x s IH]; simpl; auto.
  unfold escape_char.
  destruct (x =? 38) eqn:E1; [cbn; exact IH|].
  destruct (x =? 62) eqn:E2; [cbn; exact IH|].
  destruct (x =? 60) eqn:E3; [cbn; exact IH|].
  simpl. rewrite E1. exact IH.
Qed.

(* ---- the HTML policy is selected by the two low bits only ---- *)
Theorem policy_cases m :
  (Z.land m 3 = 0 -> html_policy m = PRaw)%Z /\ (Z.land m 3 = 1 -> html_policy m = PDrop)%Z /\
  (Z.land m 3 = 2 -> html_policy m = PReplace)%Z /\ (Z.land m 3 = 3 -> html_policy m = PEscape)%Z.
Proof. unfold html_policy. repeat split; intros ->; reflexivity. Qed.

Theorem filter_cases (s : ienv) html :
  (html_policy (en_mode s) = PDrop -> htmlSafeModeFilter s html = []) /\
  (html_policy (en_mode s) = PReplace -> htmlSafeModeFilter s html = en_repl s) /\
  (html_policy (en_mode s) = PEscape -> htmlSafeModeFilter s html = escape html) /\
  (html_policy (en_mode s) = PRaw -> htmlSafeModeFilter s html = html).
Proof. unfold htmlSafeModeFilter. repeat split; intros ->; reflexivity. Qed.

(* ---- guards that keep raw markup out in every non-zero mode ---- *)
Theorem safe_mode_guards m : m <> 0%Z ->
  specials_refused m = true /\ attrs_allowed m = false /\
  blockDefFilter_skip m = true /\ quoteDefFilter_skip m = true /\ replacementDefFilter_skip m = true /\
  apiOptionFilter_skip m = true.
Proof.
  intros H. pose proof (guards_nz m H) as (H1 & H2 & H3 & H4).
  unfold specials_refused, attrs_allowed, isSafeModeNz.
  destruct (m =? 0)%Z eqn:E; [apply Z.eqb_eq in E; contradiction|]. simpl. repeat split; auto.
Qed.

Theorem bit4_skips_attributes m : Z.land m 4 <> 0%Z -> parse_skip m = true /\ anchorFilter_skip m = true.
Proof.
  intros H. unfold parse_skip, anchorFilter_skip, skipBlockAttributes.
  destruct (Z.land m 4 =? 0)%Z eqn:E; [apply Z.eqb_eq in E; contradiction|]. auto.
Qed.

(* ---- reset: the session after updateFrom does not depend on what came before ---- *)
Definition same_but_scratch (a b : session) : Prop :=
  set_listids (set_log a []) [] = set_listids (set_log b []) [].

Lemma same_but_scratch_init a b : same_but_scratch (document_init a) (document_init b).
Proof. reflexivity. Qed.

Lemma cb_step2_scratch o a b : same_but_scratch a b -> same_but_scratch (cb_step2 o a) (cb_step2 o b).
Proof.
  unfold same_but_scratch, cb_step2. intros H. destruct (o_callback o); auto.
  destruct a, b. simpl in *. inversion H; subst. reflexivity.
Qed.

Lemma setOption_safeMode_scratch v a b a' b' :
  same_but_scratch a b -> setOption_safeMode v a = Ok (tt, a') -> setOption_safeMode v b = Ok (tt, b') ->
  same_but_scratch a' b'.
Proof.
  intros H Ha Hb. destruct (legal_mode v) eqn:L.
  - destruct (setOption_safeMode_legal v a L) as (n & Hn & _ & Ea).
    destruct (setOption_safeMode_legal v b L) as (n' & Hn' & _ & Eb).
    rewrite Ea in Ha. rewrite Eb in Hb. inversion Ha; inversion Hb; subst.
    assert (n = n') by congruence. subst.
    unfold same_but_scratch in *. destruct a, b. simpl in *. inversion H; subst. reflexivity.
  - rewrite setOption_safeMode_illegal in Ha, Hb by auto. inversion Ha; inversion Hb; subst.
    unfold same_but_scratch in *. destruct a, b. simpl in *. inversion H; subst. reflexivity.
Qed.

Theorem reset_state_independent o a b a' b' :
  reset_is_false (o_reset o) = false -> reset_is_true (o_reset o) = true ->
  updateFrom o a = Ok (tt, a') -> updateFrom o b = Ok (tt, b') -> same_but_scratch a' b'.
Proof.
  intros H1 H2 Ha Hb. rewrite updateFrom_unfold in Ha, Hb.
  rewrite setOption_reset_true in Ha, Hb by auto.
  set (a1 := cb_step2 o (document_init (cb_step1 o a))) in *.
  set (b1 := cb_step2 o (document_init (cb_step1 o b))) in *.
  assert (S1 : same_but_scratch a1 b1) by (apply cb_step2_scratch, same_but_scratch_init).
  destruct (o_safeMode o) eqn:Es.
  - cbn in Ha, Hb.
    destruct (o_htmlReplacement o); inversion Ha; inversion Hb; subst; auto;
      unfold same_but_scratch in *; destruct a1, b1; simpl in *; inversion S1; subst; reflexivity.
  - destruct (setOption_safeMode _ a1) as [[[] a2]| |] eqn:Ea; try discriminate.
    destruct (setOption_safeMode _ b1) as [[[] b2]| |] eqn:Eb; try discriminate.
    pose proof (setOption_safeMode_scratch _ _ _ _ _ S1 Ea Eb) as S2.
    destruct (o_htmlReplacement o); inversion Ha; inversion Hb; subst; auto;
      unfold same_but_scratch in *; destruct a2, b2; simpl in *; inversion S2; subst; reflexivity.
  - destruct (setOption_safeMode _ a1) as [[[] a2]| |] eqn:Ea; try discriminate.
    destruct (setOption_safeMode _ b1) as [[[] b2]| |] eqn:Eb; try discriminate.
    pose proof (setOption_safeMode_scratch _ _ _ _ _ S1 Ea Eb) as S2.
    destruct (o_htmlReplacement o); inversion Ha; inversion Hb; subst; auto;
      unfold same_but_scratch in *; destruct a2, b2; simpl in *; inversion S2; subst; reflexivity.
  - destruct (setOption_safeMode _ a1) as [[[] a2]| |] eqn:Ea; try discriminate.
    destruct (setOption_safeMode _ b1) as [[[] b2]| |] eqn:Eb; try discriminate.
    pose proof (setOption_safeMode_scratch _ _ _ _ _ S1 Ea Eb) as S2.
    destruct (o_htmlReplacement o); inversion Ha; inversion Hb; subst; auto;
      unfold same_but_scratch in *; destruct a2, b2; simpl in *; inversion S2; subst; reflexivity.
  - destruct (setOption_safeMode _ a1) as [[[] a2]| |] eqn:Ea; try discriminate.
    destruct (setOption_safeMode _ b1) as [[[] b2]| |] eqn:Eb; try discriminate.
    pose proof (setOption_safeMode_scratch _ _ _ _ _ S1 Ea Eb) as S2.
    destruct (o_htmlReplacement o); inversion Ha; inversion Hb; subst; auto;
      unfold same_but_scratch in *; destruct a2, b2; simpl in *; inversion S2; subst; reflexivity.
Qed.

(* ---- without reset and without options a call does not touch the session before rendering ---- *)
Theorem api_no_options_starts_from_session n src o s :
  s_mode s <> (-1)%Z -> o_safeMode o = PyNone -> o_htmlReplacement o = PyNone -> reset_is_false (o_reset o) = true ->
  api_render n src o s = doc_render n src (cb_step2 o (cb_step1 o s)).
Proof.
  intros Hm H1 H2 H3. rewrite api_render_unfold. cbv zeta.
  destruct (s_mode s =? -1)%Z eqn:E; [apply Z.eqb_eq in E; contradiction|].
  rewrite updateFrom_unfold, H1, H2. rewrite setOption_reset_false by auto. reflexivity.
Qed.

(* ---- blanking of the reserved code points ---- *)
Definition reserved (c : char) : bool := (c =? 0) || (c =? 1) || (c =? 2).

Theorem blank_reserved_free text : forallb (fun c => negb (reserved c)) (blank_reserved text) = true.
Proof.
  unfold blank_reserved, reserved. induction text as [|c t IH]; simpl; auto.
  rewrite IH, andb_true_r. destruct ((c =? 0) || (c =? 1) || (c =? 2)) eqn:E; auto. rewrite E. reflexivity.
Qed.

Theorem blank_reserved_idem text : blank_reserved (blank_reserved text) = blank_reserved text.
Proof.
  unfold blank_reserved. rewrite map_map. apply map_ext. intros c.
  destruct ((c =? 0) || (c =? 1) || (c =? 2)) eqn:E; auto. rewrite E. reflexivity.
Qed.

Theorem reader_of_blanked text : mk_reader (blank_reserved text) = mk_reader text.
Proof. unfold mk_reader. rewrite blank_reserved_idem. reflexivity. Qed.

Theorem blank_reserved_spec text :
  blank_reserved text = map (fun c => if reserved c then 32 else c) text.
Proof. reflexivity. Qed.

(* ---- slugify never returns a registered id ---- *)
Lemma mem_In x l : mem x l = true <-> In x l.
Proof.
  unfold mem. rewrite existsb_exists. split.
  - intros (y & Hy & E). apply str_eqb_eq in E. subst; auto.
  - intros H. exists x. split; auto. apply str_eqb_refl.
Qed.

(* decimal rendering is injective: str_of_N has a left inverse *)
Definition dstep (a d : N) : N := a * 10 + (d - 48).
Definition dval (l : str) : N := fold_left dstep l 0.

Lemma fold_dval l : forall a, fold_left dstep l a = a * 10 ^ (N.of_nat (length l)) + dval l.
Proof.
  unfold dval. induction l as [|d l IH]; intros a.
  - simpl. lia.
  - cbn [fold_left]. rewrite (IH (dstep a d)). rewrite (IH (dstep 0 d)).
    cbn [length]. rewrite Nat2N.inj_succ, N.pow_succ_r'. unfold dstep. lia.
Qed.

Lemma digits_fuel_val fuel : forall n acc, n < 2 ^ N.of_nat fuel ->
  dval (digits_fuel fuel n acc) = n * 10 ^ N.of_nat (length acc) + dval acc.
Proof.
  induction fuel as [|f IH]; intros n acc Hn.
  - simpl in Hn. assert (n = 0) by lia. subst. simpl. lia.
  - cbn [digits_fuel].
    assert (Hd : dval ((48 + n mod 10) :: acc) = (n mod 10) * 10 ^ N.of_nat (length acc) + dval acc).
    { unfold dval at 1. cbn [fold_left]. rewrite fold_dval. unfold dstep. replace (48 + n mod 10 - 48) with (n mod 10) by (rewrite N.add_comm; symmetry; apply N.add_sub). rewrite N.mul_0_l, N.add_0_l. reflexivity. }
    destruct (n <? 10) eqn:E.
    + apply N.ltb_lt in E. rewrite Hd. rewrite N.mod_small by lia. reflexivity.
    + apply N.ltb_ge in E. rewrite IH.
      * rewrite Hd. cbn [length]. rewrite Nat2N.inj_succ, N.pow_succ_r'.
        pose proof (N.div_mod n 10 ltac:(lia)) as Hdm.
        set (q := n / 10) in *. set (r := n mod 10) in *. set (w := 10 ^ N.of_nat (length acc)) in *.
        rewrite Hdm. nia.
      * rewrite Nat2N.inj_succ, N.pow_succ_r' in Hn.
        assert (n / 10 <= n / 2) by (apply N.div_le_compat_l; lia).
        assert (n / 2 < 2 ^ N.of_nat f) by (apply N.div_lt_upper_bound; lia). lia.
Qed.

Lemma dval_str_of_N n : dval (str_of_N n) = n.
Proof.
  unfold str_of_N. rewrite digits_fuel_val.
  - simpl. unfold dval. simpl. lia.
  - destruct n as [|p]; [simpl; lia|].
    rewrite Nat2N.inj_succ, N2Nat.id. apply N.log2_spec. lia.
Qed.

Lemma str_of_N_inj a b : str_of_N a = str_of_N b -> a = b.
Proof. intros H. rewrite <- (dval_str_of_N a), <- (dval_str_of_N b), H. reflexivity. Qed.

Section Slug.
Variable slug : str.
Definition cand (i : N) : str := slug ++ [45] ++ str_of_N i.

Lemma cand_inj i j : cand i = cand j -> i = j.
Proof. unfold cand. intros H. apply app_inv_head in H. apply app_inv_head in H. apply str_of_N_inj; auto. Qed.

Lemma slug_suffix_fresh ids : forall budget i acc,
  NoDup acc -> incl acc ids -> (forall x, In x acc -> exists j, j < i /\ x = cand j) ->
  (length acc + length budget = length ids)%nat ->
  mem (slug_suffix budget ids slug i) ids = false.
Proof.
  induction budget as [|b budget IH]; intros i acc Hnd Hincl Hlt Hlen; cbn [slug_suffix]; fold (cand i).
  - destruct (mem (cand i) ids) eqn:E; auto. apply mem_In in E. exfalso.
    assert (Hn : NoDup (cand i :: acc)).
    { constructor; auto. intros Hin. destruct (Hlt _ Hin) as (j & Hj & Ej). apply cand_inj in Ej. lia. }
    assert (Hi : incl (cand i :: acc) ids) by (intros x [<-|Hx]; auto).
    pose proof (NoDup_incl_length Hn Hi) as Hl. simpl in *. lia.
  - destruct (mem (cand i) ids) eqn:E; auto. apply mem_In in E.
    apply (IH (i + 1) (cand i :: acc)).
    + constructor; auto. intros Hin. destruct (Hlt _ Hin) as (j & Hj & Ej). apply cand_inj in Ej. lia.
    + intros x [<-|Hx]; auto.
    + intros x [<-|Hx]; [exists i; split; [lia|reflexivity]|]. destruct (Hlt _ Hx) as (j & Hj & Ej). exists j. split; [lia|auto].
    + simpl in *. lia.
Qed.
End Slug.

Theorem slugify_fresh ids text : mem (slugify ids text) ids = false.
Proof.
  unfold slugify. cbv zeta.
  match goal with |- mem (if mem ?sl ids then _ else _) ids = false => destruct (mem sl ids) eqn:E; auto end.
  eapply (slug_suffix_fresh _ ids ids 2 []).
  - constructor.
  - intros x [].
  - intros x [].
  - reflexivity.
Qed.

(* ---- every tag-bearing template of the generated tables is balanced ---- *)
(* scan a template: on '<' read the tag name (letters, digits, '$', '/') up to ' ' or '>' *)
Fixpoint read_name (s : str) (acc : str) : str * str :=
  match s with
  | [] => (frev acc, [])
  | c :: t => if (c =? 32) || (c =? 62) then (frev acc, s) else read_name t (c :: acc)
  end.

Fixpoint skip_to_gt (s : str) : str :=
  match s with [] => [] | c :: t => if c =? 62 then t else skip_to_gt t end.

Definition is_void (n : str) : bool := str_eqb n $"br" || str_eqb n $"img".

Fixpoint balanced_fuel (fuel : nat) (s : str) (stack : list str) : bool :=
  match fuel with
  | O => false
  | S f =>
      match s with
      | [] => match stack with [] => true | _ => false end
      | 60 :: 47 :: t =>
          let '(n, rest) := read_name t [] in
          match stack with
          | top :: st => str_eqb top n && balanced_fuel f (skip_to_gt rest) st
          | [] => false
          end
      | 60 :: t =>
          let '(n, rest) := read_name t [] in
          if is_void n then balanced_fuel f (skip_to_gt rest) stack
          else balanced_fuel f (skip_to_gt rest) (n :: stack)
      | _ :: t => balanced_fuel f t stack
      end
  end.

Definition template_balanced (s : str) : bool := balanced_fuel (S (length s)) s [].

Definition all_templates : list str :=
  map (fun d => q_open d ++ q_close d) quotes_default ++
  map r_repl replacements_default ++
  map l_repl lineblocks_defs ++
  map (fun d => d_openTag d ++ d_closeTag d) dblocks_default ++
  flat_map (fun d => [li_listOpen d ++ li_listClose d; li_itemOpen d ++ li_itemClose d; li_termOpen d ++ li_termClose d]) lists_defs.

Theorem templates_balanced : forallb template_balanced all_templates = true.
Proof. vm_compute. reflexivity. Qed.

Theorem default_replacement_balanced : template_balanced default_htmlReplacement = true.
Proof. vm_compute. reflexivity. Qed.

(* ---- injection either registers a fresh id or reports a duplicate ---- *)
Theorem register_or_report_spec has_id id s :
  let s' := register_or_report has_id id s in
  (s_ids s' = s_ids s /\ s_log s' = (s_cb s, $"duplicate 'id' attribute: " ++ id) :: s_log s /\ (has_id = true \/ In id (s_ids s)))
  \/ (s_ids s' = id :: s_ids s /\ s_log s' = s_log s /\ ~ In id (s_ids s) /\ has_id = false).
Proof.
  unfold register_or_report. destruct has_id; simpl.
  - left. destruct s; simpl; auto.
  - destruct (mem id (s_ids s)) eqn:E.
    + left. apply mem_In in E. destruct s; simpl in *; auto.
    + right. apply mem_false_notin in E. destruct s; simpl in *; auto.
Qed.

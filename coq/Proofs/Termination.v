(* C02, inline layer: spans.render terminates, with fuel linear in the length of its source, whenever
   every replacement definition (a) cannot match the empty string and (b) hands to a nested spans.render
   (a `$$n` parameter of its template) only groups that start strictly after the start of the match.
   Both are decidable on the definitions ([rdef_term]) and hold of the generated defaults; (b) is exactly
   what the known finding (a user definition `/(a+)/ = '<b>$$1</b>'`) lacks.  Fuel is the only source of
   [Fuel] in the inline layer: the matcher itself is total. *)
From Rimu Require Import Base Unicode Regex RegexSem RegexAnalysis RegexParse Str Types Tables Guards State Inline MatchLemmas Placeholder.
From Coq Require Import Lia.
Local Open Scope monad_scope.

(* ---- where a capture can begin ---- *)
Fixpoint after1 (k : nat) (r : regex) : bool :=
  match r with
  | RSeq a b => after1 k a && (after1 k b || negb (nullable a))
  | RAlt a b => after1 k a && after1 k b
  | RRep _ _ _ b => after1 k b
  | RGrp j b => negb (Nat.eqb k j) && after1 k b
  | RLook _ b => after1 k b
  | _ => true
  end.

Definition cap_bound (strict : bool) (k : nat) (s s' : mst) : Prop :=
  forall g, cap_get k (st_c s') = Some g ->
    cap_get k (st_c s) = Some g \/
    (if strict then (length (c_txt g) < length (st_rest s))%nat else (length (c_txt g) <= length (st_rest s))%nat).

Lemma newcap k :
  (forall r s s', Matches r s s' -> cap_bound false k s s') /\
  (forall b s n s', Iter b s n s' -> cap_bound false k s s').
Proof.
  apply Matches_Iter_ind; intros; unfold cap_bound in *; cbn [st_c st_rest] in *; intros cg Hg; auto.
  - (* seq *)
    apply H0 in Hg as [Hg|Hg]; [auto|]. right. pose proof (proj1 (proj1 nonnull_consumes _ _ _ m)). lia.
  - (* group *)
    cbn [cap_get] in Hg. destruct (Nat.eqb k n).
    + inversion Hg; subst cg. cbn. right. lia.
    + auto.
  - (* iteration *)
    apply H0 in Hg as [Hg|Hg]; [auto|]. right. pose proof (proj1 (proj1 nonnull_consumes _ _ _ m)). lia.
Qed.

Lemma after1_sound k :
  (forall r s s', Matches r s s' -> after1 k r = true -> cap_bound true k s s') /\
  (forall b s n s', Iter b s n s' -> after1 k b = true -> cap_bound true k s s').
Proof.
  apply Matches_Iter_ind; intros; unfold cap_bound in *; cbn [st_c st_rest after1] in *; intros cg Hg; auto.
  - (* seq *)
    apply andb_prop in H1 as [Ha Hb]. apply orb_prop in Hb as [Hb|Hb].
    + apply (H0 Hb) in Hg as [Hg|Hg]; [auto|]. right. pose proof (proj1 (proj1 nonnull_consumes _ _ _ m)). lia.
    + apply (proj1 (newcap k) _ _ _ m0) in Hg as [Hg|Hg]; [auto|]. right.
      apply negb_true_iff in Hb. pose proof (proj2 (proj1 nonnull_consumes _ _ _ m) Hb). cbn in Hg. lia.
  - apply andb_prop in H0 as [Ha Hb]. auto.
  - apply andb_prop in H0 as [Ha Hb]. auto.
  - (* group *)
    apply andb_prop in H0 as [Hn Hb]. apply negb_true_iff in Hn. cbn [cap_get] in Hg. rewrite Hn in Hg. auto.
  - (* iteration *)
    apply (H0 H1) in Hg as [Hg|Hg]; [auto|]. right. pose proof (proj1 (proj1 nonnull_consumes _ _ _ m)). lia.
Qed.

Lemma length_takeN n : forall l : str, (length (takeN n l) <= length l)%nat.
Proof.
  intros l. revert n. induction l as [|x t IH]; intros n; cbn [takeN]; [simpl; lia|].
  destruct (n =? 0); simpl; [lia|]. specialize (IH (N.pred n)). lia.
Qed.

Lemma lenN_length (l : str) : lenN l = N.of_nat (length l).
Proof. induction l as [|x t IH]; simpl; [reflexivity|]. rewrite IH. lia. Qed.

(* a group the analysis accepts is strictly shorter than the subject *)
Lemma grp_s_strict r text m i : match_spec r text m -> (1 <= i)%nat -> after1 i (re_ast r) = true ->
  text <> [] -> (length (grp_s m i) < length text)%nat.
Proof.
  intros [pre w post p fin Hs Hst Hen Hg Mrun Hrest Hwf] Hi Ha Hne.
  assert (Hpos : (0 < length text)%nat) by (destruct text; [congruence|simpl; lia]).
  destruct i as [|k]; [lia|]. unfold grp_s, grp. rewrite Hg. cbn [nth].
  destruct (Nat.ltb k (re_groups r)) eqn:Ek.
  - apply PeanoNat.Nat.ltb_lt in Ek. rewrite group_list_nth by exact Ek.
    destruct (cap_get (S k) (st_c fin)) as [g|] eqn:Eg; [|simpl; exact Hpos]. cbn [option_map].
    destruct (proj1 (after1_sound (S k)) _ _ _ Mrun Ha g Eg) as [Hx|Hx]; [cbn in Hx; discriminate|].
    cbn [st_rest] in Hx. unfold cap_text. pose proof (length_takeN (c_e g - c_s g) (c_txt g)).
    rewrite Hs, !app_length. rewrite app_length in Hx. lia.
  - apply PeanoNat.Nat.ltb_ge in Ek. rewrite nth_overflow; [simpl; exact Hpos|].
    rewrite group_list_length. simpl. lia.
Qed.

(* a match of a pattern that cannot match the empty string is not empty *)
Lemma match_nonnull r text m : match_spec r text m -> nullable (re_ast r) = false ->
  exists before w after, text = before ++ w ++ after /\ w <> [] /\
    takeN (m_start m) text = before /\ dropN (m_end m) text = after /\
    m_start m = lenN before /\ m_end m = lenN before + lenN w.
Proof.
  intros Hm Hn. destruct (match_spec_cut _ _ _ Hm) as (before & w & after & Hs & Hb & Ha & _ & Hst & Hen).
  exists before, w, after. repeat split; auto.
  destruct Hm as [pre w' post p fin Hs' Hst' Hen' _ Mrun Hrest _].
  assert (lenN w' = lenN w) by lia. assert (lenN pre = lenN before) by lia.
  pose proof (proj2 (proj1 nonnull_consumes _ _ _ Mrun) Hn) as Hc. cbn [st_rest] in Hc. rewrite Hrest, app_length in Hc.
  intros ->. rewrite !lenN_length in *. simpl in *. lia.
Qed.

(* ---- "returns or raises, but does not run out of fuel" ---- *)
Definition tbr {A} (P : A -> Prop) (m : Res A) : Prop :=
  match m with Ok a => P a | Raise _ => True | Fuel => False end.
Definition tb {A} (P : A -> Prop) (m : I A) : Prop := tbr (fun x => P (fst x)) m.
Definition anyv {A} : A -> Prop := fun _ => True.

Lemma tb_ret {A} (P : A -> Prop) a : P a -> tb P (iret a).
Proof. intros H. exact H. Qed.

Lemma tb_bind {A B} (P : A -> Prop) (Q : B -> Prop) (m : I A) (f : A -> I B) :
  tb P m -> (forall a, P a -> tb Q (f a)) -> tb Q (ibind m f).
Proof.
  unfold tb, tbr, ibind. destruct m as [[a l]|e|]; auto. cbn [fst]. intros Ha Hf. specialize (Hf a Ha).
  destruct (f a) as [[b l2]|e|]; auto.
Qed.

Lemma tb_weaken {A} (P Q : A -> Prop) (m : I A) : tb P m -> (forall a, P a -> Q a) -> tb Q m.
Proof. unfold tb, tbr. destruct m as [[a l]|e|]; auto. Qed.

Lemma tb_of_res {A} (P : A -> Prop) (r : Res A) : tbr P r -> tb P (of_res r).
Proof. destruct r; auto. Qed.

(* ---- utils.replaceMatch ---- *)
Definition digit_of (dm : mres) : nat :=
  match grp_s dm 2 with
  | [d] => match digit_val d with Some v => N.to_nat v | None => O end
  | _ => O
  end.

Definition is_dd (seg : str * mres) : bool := str_eqb (grp_s (snd seg) 1) $"$$".

Lemma replaceInline_tb sr t e : (truthy (e_spans e) = true -> tb anyv (sr t)) ->
  tb anyv (replaceInline no_macros sr (Some t) e).
Proof.
  intros H. unfold replaceInline.
  assert (E : (if truthy (e_macros e) then no_macros t else iret t) = iret t) by (destruct (truthy (e_macros e)); reflexivity).
  rewrite E. apply (tb_bind (fun r => r = t)); [reflexivity|]. intros a ->.
  destruct (truthy (e_spans e)); [auto|]. destruct (truthy (e_specials e)); exact Logic.I.
Qed.

Lemma rms_tb sr m ng : forall segs e,
  (truthy (e_spans e) = true \/ existsb is_dd segs = true ->
   forall seg, In seg segs -> Nat.ltb ng (digit_of (snd seg)) = true \/ tb anyv (sr (grp_s m (digit_of (snd seg))))) ->
  tb anyv (replaceMatch_segs no_macros sr m ng segs e).
Proof.
  induction segs as [|[before dm] t IH]; intros e H; cbn [replaceMatch_segs]; [exact Logic.I|].
  fold (digit_of dm). cbn [existsb] in H. unfold is_dd at 1 in H. cbn [snd] in H.
  set (e' := if str_eqb (grp_s dm 1) $"$$" then _ else _).
  assert (Hsp : truthy (e_spans e') = true -> truthy (e_spans e) = true \/ str_eqb (grp_s dm 1) $"$$" = true).
  { subst e'. destruct (str_eqb (grp_s dm 1) $"$$"); cbn; auto. }
  apply (tb_bind anyv).
  - destruct (Nat.ltb ng (digit_of dm)) eqn:El.
    + apply (tb_bind anyv); [exact Logic.I|]. intros; exact Logic.I.
    + apply (tb_bind anyv); [|intros; exact Logic.I].
      apply replaceInline_tb. intros Hs. apply Hsp in Hs.
      destruct (H (ltac:(destruct Hs as [Hs|Hs]; [left; exact Hs|right; rewrite Hs; reflexivity])) (before, dm) (or_introl eq_refl)) as [Hx|Hx];
        cbn [snd] in Hx; [congruence|exact Hx].
  - intros x _. apply (tb_bind anyv); [|intros; exact Logic.I].
    apply IH. intros Hs seg Hin. apply H; [|right; exact Hin].
    destruct Hs as [Hs|Hs]; [|right; rewrite Hs; apply orb_true_r].
    apply Hsp in Hs as [Hs|Hs]; [left; exact Hs|right; rewrite Hs; reflexivity].
Qed.

(* the decidable condition on a replacement definition *)
Definition rdef_term (d : rdef) : bool :=
  negb (nullable (re_ast (r_re d))) &&
  (let segs := fst (re_scan re_utils_replaceMatch_0 (r_repl d)) in
   negb (existsb is_dd segs) ||
   forallb (fun seg => let i := digit_of (snd seg) in
                       Nat.ltb (re_groups (r_re d)) i || (Nat.leb 1 i && after1 i (re_ast (r_re d)))) segs).

Lemma replaceMatch_tb sr d m text : rdef_term d = true -> match_spec (r_re d) text m -> text <> [] ->
  (forall t, (length t < length text)%nat -> tb anyv (sr t)) ->
  tb anyv (replaceMatch no_macros sr m (re_groups (r_re d)) (r_repl d) expand_none).
Proof.
  intros Hd Hm Hne SR. unfold replaceMatch. apply andb_prop in Hd as [_ Hd]. cbv zeta in Hd.
  destruct (re_scan re_utils_replaceMatch_0 (r_repl d)) as [segs tl]. cbn [fst] in Hd.
  apply (tb_bind anyv); [|intros; exact Logic.I].
  apply rms_tb. intros Hs seg Hin. apply orb_prop in Hd as [Hd|Hd].
  - apply negb_true_iff in Hd. destruct Hs as [Hs|Hs]; [cbn in Hs; discriminate|congruence].
  - rewrite forallb_forall in Hd. apply Hd in Hin. cbv zeta in Hin. apply orb_prop in Hin as [Hin|Hin]; [left; exact Hin|].
    right. apply andb_prop in Hin as [H1 Ha]. apply PeanoNat.Nat.leb_le in H1.
    apply SR. eapply grp_s_strict; eauto.
Qed.

Lemma replacement_text_tb s sr d m text : rdef_term d = true -> match_spec (r_re d) text m -> text <> [] ->
  (forall t, (length t < length text)%nat -> tb anyv (sr t)) ->
  tb anyv (replacement_text s sr d m).
Proof.
  intros Hd Hm Hne SR. unfold replacement_text. destruct (starts_with [92] (grp0 m)); [exact Logic.I|].
  destruct (r_filter d).
  - eapply replaceMatch_tb; eauto.
  - destruct (skipBlockAttributes (en_mode s)); [exact Logic.I|]. eapply replaceMatch_tb; eauto.
  - destruct (grp m 1); exact Logic.I.
  - destruct (grp m 1); exact Logic.I.
Qed.

(* ---- fragments: size = what they contribute to the placeholder text ---- *)
Definition fsz1 (f : frag) : nat := if f_done f then 1%nat else length (f_text f).
Fixpoint fsz (l : list frag) : nat := match l with [] => O | f :: t => (fsz1 f + fsz t)%nat end.

Lemma fsz_app a b : fsz (a ++ b) = (fsz a + fsz b)%nat.
Proof. induction a as [|f a IH]; simpl; [reflexivity|]. rewrite IH. lia. Qed.

Lemma fragReplacement_tb s sr d : rdef_term d = true -> forall n text, (length text < n)%nat ->
  (forall t, (length t < length text)%nat -> tb anyv (sr t)) ->
  tb (fun frags => (fsz frags <= length text)%nat) (fragReplacement s sr n d text).
Proof.
  intros Hd. induction n as [|n IH]; intros text Hn SR; [lia|]. cbn [fragReplacement].
  destruct (re_search (r_re d) text) as [m|] eqn:E.
  2:{ apply tb_ret. cbn. lia. }
  apply re_search_spec in E. pose proof Hd as Hd'. apply andb_prop in Hd' as [Hnn _]. apply negb_true_iff in Hnn.
  destruct (match_nonnull _ _ _ E Hnn) as (before & w & after & Hs & Hw & Hb & Ha & _ & _).
  assert (Hne : text <> []). { rewrite Hs. destruct before; [destruct w; [congruence|discriminate]|discriminate]. }
  assert (Hlen : (length text = length before + length w + length after)%nat) by (rewrite Hs, !app_length; lia).
  assert (Hwl : (0 < length w)%nat) by (destruct w; [congruence|simpl; lia]).
  rewrite Hb, Ha.
  apply (tb_bind anyv); [eapply replacement_text_tb; eauto|]. intros rep _.
  apply (tb_bind (fun frags => (fsz frags <= length after)%nat)).
  - apply IH; [lia|]. intros t Ht. apply SR. lia.
  - intros rest Hr. apply tb_ret. cbn. lia.
Qed.

Lemma iconcat_map_tb (g : frag -> I (list frag)) : forall frags,
  (forall f, In f frags -> tb (fun o => (fsz o <= fsz1 f)%nat) (g f)) ->
  tb (fun o => (fsz o <= fsz frags)%nat) (iconcat_map g frags).
Proof.
  induction frags as [|f t IH]; intros H; cbn [iconcat_map]; [apply tb_ret; simpl; lia|].
  apply (tb_bind (fun o => (fsz o <= fsz1 f)%nat)); [apply H; left; reflexivity|]. intros a Ha.
  apply (tb_bind (fun o => (fsz o <= fsz t)%nat)); [apply IH; intros; apply H; right; assumption|]. intros b Hb.
  apply tb_ret. rewrite fsz_app. simpl. lia.
Qed.

Lemma fragReplacements_tb s sr n L : (L < n)%nat -> (forall t, (length t < L)%nat -> tb anyv (sr t)) ->
  forall defs, forallb rdef_term defs = true -> forall frags, (fsz frags <= L)%nat ->
  tb (fun o => (fsz o <= L)%nat) (fragReplacements s sr n defs frags).
Proof.
  intros Hn SR. induction defs as [|d ds IH]; intros Hd frags Hf; cbn [fragReplacements]; [apply tb_ret; exact Hf|].
  cbn [forallb] in Hd. apply andb_prop in Hd as [Hd Hds].
  apply (tb_bind (fun o => (fsz o <= fsz frags)%nat)).
  - apply iconcat_map_tb. intros f Hin.
    assert (Hf1 : (fsz1 f <= fsz frags)%nat).
    { clear -Hin. induction frags as [|x t IH]; [destruct Hin|]. destruct Hin as [->|Hin]; simpl; [lia|]. apply IH in Hin. lia. }
    unfold fsz1 in *. destruct (f_done f) eqn:Ef.
    + apply tb_ret. cbn. unfold fsz1. rewrite Ef. lia.
    + apply fragReplacement_tb; [exact Hd|lia|]. intros t Ht. apply SR. lia.
  - intros tmp Ht. apply IH; [exact Hds|lia].
Qed.

Lemma placeholder_length frags : length (frag_placeholder_text frags) = fsz frags.
Proof.
  unfold frag_placeholder_text. induction frags as [|f t IH]; [reflexivity|]. cbn [flat_map fsz]. rewrite app_length.
  unfold fsz1. destruct (f_done f); simpl; f_equal; exact IH.
Qed.

(* ---- quotes ---- *)
Lemma skip_to_min : forall s n i p, exists p' pre rest,
  skip_to n i p s = (i + N.min n (lenN s), p', rest) /\ s = pre ++ rest /\ lenN pre = N.min n (lenN s).
Proof.
  induction s as [|x t IH]; intros n i p; cbn [skip_to].
  - exists p, [], []. simpl. rewrite N.min_0_r, N.add_0_r. auto.
  - destruct (n =? 0) eqn:En.
    + apply N.eqb_eq in En. subst n. exists p, [], (x :: t). rewrite N.min_0_l, N.add_0_r. auto.
    + apply N.eqb_neq in En. destruct (IH (N.pred n) (i + 1) (Some x)) as (p' & pre & rest & E & Hs & Hl).
      exists p', (x :: pre), rest. rewrite E. cbn [lenN]. split; [f_equal; f_equal; lia|]. split; [simpl; f_equal; exact Hs|lia].
Qed.

Lemma re_search_pos_ge r text pos m : re_search_pos r text pos = Some m ->
  match_spec r text m /\ N.min pos (lenN text) <= m_start m.
Proof.
  unfold re_search_pos. destruct (skip_to_min text pos 0 None) as (p' & pre & rest & E & Hs & Hl).
  rewrite E. rewrite N.add_0_l, <- Hl. intros H. eapply search_from_spec in H; [exact H|exact Hs].
Qed.

Definition qterm (qs : list qdef) : Prop := Forall (fun d => q_quote d <> []) qs.

(* a quote match is not empty and lies inside the text *)
Lemma quote_match_bounds qs text m : qterm qs -> match_spec (quotesRe qs) text m ->
  m_start m < lenN text /\ m_start m < m_end m /\ m_end m <= lenN text.
Proof.
  intros Hq Hm. destruct (quote_decomp _ _ _ Hm) as (bs & q & body & Hg & _ & Hqin).
  destruct (match_spec_cut _ _ _ Hm) as (before & w & after & Hs & _ & _ & Hg0 & Hst & Hen).
  unfold grp in Hg0. rewrite Hg in Hg0. cbn in Hg0. inversion Hg0; subst w; clear Hg0.
  apply in_map_iff in Hqin as (d & <- & Hd). unfold qterm in Hq. rewrite Forall_forall in Hq. apply Hq in Hd.
  assert (0 < lenN (q_quote d)) by (destruct (q_quote d); [congruence|simpl; lia]).
  rewrite Hs, Hst, Hen, !lenN_app. lia.
Qed.

Lemma find_quote_end qs text : qterm qs -> forall n next, (0 < n)%nat -> lenN text <= next ->
  find_quote n (quotesRe qs) text next = Ok None.
Proof.
  intros Hq n next Hn Hnext. destruct n as [|n]; [lia|]. cbn [find_quote].
  destruct (re_search_pos (quotesRe qs) text next) as [m|] eqn:E; [|reflexivity].
  apply re_search_pos_ge in E as [Hm Hge]. pose proof (quote_match_bounds _ _ _ Hq Hm). lia.
Qed.

Lemma find_quote_tb qs text : qterm qs -> forall n next, next < lenN text -> lenN text + 2 <= N.of_nat n + next ->
  find_quote n (quotesRe qs) text next <> Fuel.
Proof.
  intros Hq. induction n as [|n IH]; intros next Hlt Hn; [lia|]. cbn [find_quote].
  destruct (re_search_pos (quotesRe qs) text next) as [m|] eqn:E; [|discriminate].
  apply re_search_pos_ge in E as [Hm Hge]. pose proof (quote_match_bounds _ _ _ Hq Hm) as (B1 & B2 & B3).
  destruct (starts_with [92] (grp0 m)); [|discriminate].
  destruct (N.ltb_spec (m_start m + lenN (grp_s m 1) + 1) (lenN text)) as [Hl|Hl].
  - apply IH; [exact Hl|lia].
  - rewrite (find_quote_end _ _ Hq); [discriminate|lia|exact Hl].
Qed.

Lemma fragQuote_tb qs : qterm qs -> forall n text, (length text + 3 <= n)%nat ->
  tbr anyv (fragQuote n qs (quotesRe qs) text).
Proof.
  intros Hq. induction n as [|n IH]; intros text Hn; [lia|]. cbn [fragQuote].
  assert (Hfq : find_quote n (quotesRe qs) text 0 <> Fuel).
  { destruct text as [|x t] eqn:Et.
    - rewrite (find_quote_end _ _ Hq); [discriminate|lia|simpl; lia].
    - rewrite <- Et in *. apply find_quote_tb; [exact Hq|rewrite Et; simpl; lia|rewrite lenN_length; lia]. }
  destruct (find_quote n (quotesRe qs) text 0) as [[m|]|e|] eqn:E; [| |exact Logic.I|congruence].
  2:{ exact Logic.I. }
  apply find_quote_spec in E.
  destruct (quote_decomp _ _ _ E) as (bs & q & body & Hg & Hbs & Hqin).
  destruct (match_spec_cut _ _ _ E) as (before & w & after0 & Hs & Hb & Ha & Hg0 & _).
  unfold grp in Hg0. rewrite Hg in Hg0. cbn in Hg0. inversion Hg0; subst w; clear Hg0.
  assert (G1 : grp_s m 1 = q) by (unfold grp_s, grp; rewrite Hg; reflexivity).
  assert (G2 : grp_s m 2 = body) by (unfold grp_s, grp; rewrite Hg; reflexivity).
  rewrite G1, G2, Hb, Ha.
  destruct (quote_getDefinition qs q) as [d|] eqn:Ed; [|exact Logic.I].
  apply in_map_iff in Hqin as (d' & <- & Hd'). unfold qterm in Hq. pose proof Hq as Hq'. rewrite Forall_forall in Hq'. apply Hq' in Hd'.
  assert (Hql : (0 < length (q_quote d'))%nat) by (destruct (q_quote d'); [congruence|simpl; lia]).
  destruct (count_lead_spec (hd 0 (q_quote d')) after0) as (lead & Hlead & Tlead). rewrite Tlead.
  set (after := snd (count_lead (hd 0 (q_quote d')) after0)) in *.
  assert (Hlen : (length text = length before + (length bs + (length (q_quote d') + (length body + length (q_quote d')))) + (length lead + length after))%nat).
  { rewrite Hs, Hlead, !app_length. lia. }
  assert (Inner : tbr anyv (if negb (q_spans d) then Ok [done (replace_char 0 1 (escape (body ++ lead)))]
                            else fragQuote n qs (quotesRe qs) (body ++ lead))).
  { destruct (negb (q_spans d)); [exact Logic.I|]. apply IH. rewrite app_length. lia. }
  destruct (if negb (q_spans d) then _ else _) as [mid|e|]; [|exact Logic.I|exact Inner].
  assert (Rest : tbr anyv (fragQuote n qs (quotesRe qs) after)) by (apply IH; lia).
  destruct (fragQuote n qs (quotesRe qs) after) as [rest|e|]; [exact Logic.I|exact Logic.I|exact Rest].
Qed.

Lemma res_concat_map_tb {A B} (f : A -> Res (list B)) : forall l, (forall x, In x l -> tbr anyv (f x)) ->
  tbr anyv (res_concat_map f l).
Proof.
  induction l as [|x t IH]; intros H; cbn [res_concat_map]; [exact Logic.I|].
  pose proof (H x (or_introl eq_refl)) as Hx. destruct (f x) as [a|e|]; [|exact Logic.I|exact Hx].
  assert (Ht : tbr anyv (res_concat_map f t)) by (apply IH; intros; apply H; right; assumption).
  destruct (res_concat_map f t) as [b|e|]; [exact Logic.I|exact Logic.I|exact Ht].
Qed.

Lemma fragQuotes_tb qs n text : qterm qs -> (length text + 3 <= n)%nat ->
  tbr anyv (fragQuotes n qs [undone text]).
Proof.
  intros Hq Hn. unfold fragQuotes.
  assert (H : tbr anyv (res_concat_map (fun f => if f_done f then Ok [f] else fragQuote n qs (quotesRe qs) (f_text f)) [undone text])).
  { apply res_concat_map_tb. intros x [<-|[]]. cbn. apply fragQuote_tb; assumption. }
  destruct (res_concat_map _ _) as [l|e|]; [exact Logic.I|exact Logic.I|exact H].
Qed.

Lemma postReplacements_tb : forall segs saved, tbr anyv (postReplacements segs saved).
Proof.
  induction segs as [|[before m] t IH]; intros saved; cbn [postReplacements]; [exact Logic.I|].
  destruct saved as [|f saved']; [exact Logic.I|]. specialize (IH saved').
  destruct (postReplacements t saved') as [rest|e|]; [exact Logic.I|exact Logic.I|exact IH].
Qed.

(* ---- spans.render ---- *)
Record term_ok (s : ienv) : Prop := {
  to_repls : forallb rdef_term (en_repls s) = true;
  to_quotes : qterm (en_quotes s) }.

Lemma spans_body_tb s sr n source : term_ok s -> (length source + 3 <= n)%nat ->
  (forall t, (length t < length source)%nat -> tb anyv (sr t)) ->
  tb anyv (spans_body s sr n source).
Proof.
  intros [Hr Hq] Hn SR. unfold spans_body.
  apply (tb_bind (fun o => (fsz o <= length source)%nat)).
  - apply fragReplacements_tb; [lia|exact SR|exact Hr|]. cbn. lia.
  - intros frags Hf. apply (tb_bind anyv).
    + apply tb_of_res. apply fragQuotes_tb; [exact Hq|]. rewrite placeholder_length. lia.
    + intros qfrags _. destruct (re_scan re_spans_postReplacements_0 _) as [segs tl].
      apply (tb_bind anyv); [apply tb_of_res, postReplacements_tb|]. intros; exact Logic.I.
Qed.

Theorem spans_render_terminates s : term_ok s -> forall n source, (length source + 4 <= n)%nat ->
  tb anyv (spans_render n s source).
Proof.
  intros Hs. induction n as [|n IH]; intros source Hn; [lia|]. cbn [spans_render].
  apply spans_body_tb; [exact Hs|lia|]. intros t Ht. apply IH. lia.
Qed.

Corollary spans_render_not_fuel s n source : term_ok s -> (length source + 4 <= n)%nat ->
  spans_render n s source <> Fuel.
Proof.
  intros Hs Hn E. pose proof (spans_render_terminates s Hs n source Hn) as H. rewrite E in H. exact H.
Qed.

(* the condition, decidable *)
Definition term_okb (s : ienv) : bool :=
  forallb rdef_term (en_repls s) && forallb (fun d => match q_quote d with [] => false | _ => true end) (en_quotes s).

Lemma term_okb_spec s : term_okb s = true -> term_ok s.
Proof.
  unfold term_okb. intros H. apply andb_prop in H as [H1 H2]. constructor; [exact H1|].
  unfold qterm. rewrite Forall_forall. rewrite forallb_forall in H2. intros d Hd. apply H2 in Hd.
  destruct (q_quote d); [discriminate|discriminate].
Qed.

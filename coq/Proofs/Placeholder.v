(* L5: the placeholder protocol of spans.render.  Replaced elements are swapped for the
   reserved code points U+0000 / U+0001, the quotes pass runs over the text with placeholders,
   and postReplacements pops the saved fragments back in order.  For a source free of the
   reserved code points (the reader blanks them) and definitions free of them, the pop never
   underflows and no reserved code point is left in the result. *)
From Rimu Require Import Base Unicode Regex RegexSem Str Types Tables Guards State Inline MatchLemmas.
From Coq Require Import Lia.
Local Open Scope monad_scope.

(* ---- character predicates over strings ---- *)
Definition allc (P : char -> Prop) (s : str) : Prop := forall x, In x s -> P x.
Definition rfree : str -> Prop := allc (fun x => 2 < x).    (* none of U+0000..U+0002 *)
Definition no2 : str -> Prop := allc (fun x => x <> 2).     (* placeholders allowed, no line-deletion flag *)

Definition is_ph (x : char) : bool := x <=? 1.
Fixpoint cnt (s : str) : nat :=
  match s with [] => O | x :: t => ((if is_ph x then 1 else 0) + cnt t)%nat end.

Lemma allc_nil P : allc P [].
Proof. intros x []. Qed.

Lemma allc_app P a b : allc P (a ++ b) <-> allc P a /\ allc P b.
Proof.
  split.
  - intros H. split; intros x Hx; apply H; apply in_or_app; auto.
  - intros [Ha Hb] x Hx. apply in_app_or in Hx as [Hx|Hx]; auto.
Qed.

Lemma allc_cons P x t : allc P (x :: t) <-> P x /\ allc P t.
Proof.
  split.
  - intros H. split; [apply H; left; reflexivity|intros y Hy; apply H; right; exact Hy].
  - intros [Hx Ht] y [<-|Hy]; auto.
Qed.

Lemma allc_factor P t s : factor t s -> allc P s -> allc P t.
Proof. intros (a & b & ->) H. apply allc_app in H as [_ H]. apply allc_app in H as [H _]. exact H. Qed.

Lemma allc_concat P l : Forall (allc P) l -> allc P (concat l).
Proof. induction 1 as [|x l Hx Hl IH]; simpl; [apply allc_nil|]. apply allc_app. auto. Qed.

Lemma allc_flat_map {A} P (f : A -> str) l : (forall a, In a l -> allc P (f a)) -> allc P (flat_map f l).
Proof.
  induction l as [|a l IH]; intros H; simpl; [apply allc_nil|]. apply allc_app. split.
  - apply H. left. reflexivity.
  - apply IH. intros b Hb. apply H. right. exact Hb.
Qed.

Lemma rfree_no2 s : rfree s -> no2 s.
Proof. intros H x Hx. apply H in Hx. lia. Qed.

Lemma cnt_app a b : cnt (a ++ b) = (cnt a + cnt b)%nat.
Proof. induction a as [|x a IH]; simpl; [reflexivity|]. rewrite IH. lia. Qed.

Lemma rfree_cnt s : rfree s -> cnt s = O.
Proof.
  induction s as [|x t IH]; intros H; simpl; [reflexivity|]. apply allc_cons in H as [Hx Ht].
  rewrite IH by exact Ht. unfold is_ph. destruct (N.leb_spec x 1); [lia|reflexivity].
Qed.

Lemma no2_cnt0_rfree s : no2 s -> cnt s = O -> rfree s.
Proof.
  induction s as [|x t IH]; intros H C; [apply allc_nil|]. apply allc_cons in H as [Hx Ht]. simpl in C.
  unfold is_ph in C. destruct (N.leb_spec x 1); [discriminate|]. apply allc_cons. split; [lia|]. apply IH; auto.
Qed.

(* escaping and the other string operations keep the predicates *)
Lemma allc_escape (P : char -> Prop) s : P 38 -> P 97 -> P 109 -> P 112 -> P 59 -> P 103 -> P 116 -> P 108 -> allc P s -> allc P (escape s).
Proof.
  intros. unfold escape. apply allc_flat_map. intros x Hx. unfold escape_char.
  destruct (x =? 38); [|destruct (x =? 62); [|destruct (x =? 60)]];
    repeat (apply allc_cons; split; [assumption|]); try apply allc_nil.
  apply allc_cons. split; [auto|apply allc_nil].
Qed.

Lemma rfree_escape s : rfree s -> rfree (escape s).
Proof. apply allc_escape; lia. Qed.
Lemma no2_escape s : no2 s -> no2 (escape s).
Proof. apply allc_escape; lia. Qed.

Lemma cnt_escape s : cnt (escape s) = cnt s.
Proof.
  induction s as [|x t IH]; [reflexivity|]. unfold escape in *. simpl. rewrite cnt_app, IH. f_equal.
  unfold escape_char. destruct (x =? 38) eqn:E1; [apply N.eqb_eq in E1; subst; reflexivity|].
  destruct (x =? 62) eqn:E2; [apply N.eqb_eq in E2; subst; reflexivity|].
  destruct (x =? 60) eqn:E3; [apply N.eqb_eq in E3; subst; reflexivity|]. simpl. lia.
Qed.

Lemma drop_prefix_app w : forall s rest, drop_prefix w s = Some rest -> s = w ++ rest.
Proof.
  induction w as [|x w IH]; intros s rest H; simpl in H.
  - inversion H. reflexivity.
  - destruct s as [|y s]; [discriminate|]. destruct (x =? y) eqn:E; [|discriminate].
    apply N.eqb_eq in E. subst. simpl. f_equal. auto.
Qed.

Lemma allc_replace_all P old new : allc P new -> forall fuel s, allc P s -> allc P (replace_all_fuel fuel old new s).
Proof.
  intros Hn. induction fuel as [|u f IH]; intros s Hs; simpl; [exact Hs|].
  destruct s as [|x t]; [apply allc_nil|].
  destruct (drop_prefix old (x :: t)) as [rest|] eqn:E.
  - destruct old; [exact Hs|]. apply drop_prefix_app in E. rewrite E in Hs. apply allc_app in Hs as [_ Hr].
    apply allc_app. split; [exact Hn|apply IH; exact Hr].
  - apply allc_cons in Hs as [Hx Ht]. apply allc_cons. split; [exact Hx|apply IH; exact Ht].
Qed.

Lemma rfree_quot s : rfree s -> rfree (replace_all [34] $"&quot;" s).
Proof. intros H. apply allc_replace_all; [|exact H]. intros x Hx. simpl in Hx. repeat destruct Hx as [<-|Hx]; try lia. Qed.

Lemma no2_replace_char s : no2 s -> no2 (replace_char 0 1 s).
Proof.
  intros H x Hx. unfold replace_char in Hx. apply in_map_iff in Hx as (y & <- & Hy).
  destruct (y =? 0); [lia|apply H; exact Hy].
Qed.

Lemma cnt_replace_char s : cnt (replace_char 0 1 s) = cnt s.
Proof.
  induction s as [|x t IH]; [reflexivity|]. simpl. rewrite IH. f_equal.
  destruct (x =? 0) eqn:E; [apply N.eqb_eq in E; subst; reflexivity|reflexivity].
Qed.

(* ---- the inline monad: a postcondition on the value, and no stack underflow ---- *)
Definition good {A} (P : A -> Prop) (m : I A) : Prop :=
  match m with Ok (a, _) => P a | Raise e => e <> ExPopEmpty | Fuel => True end.

Lemma good_ret {A} (P : A -> Prop) a : P a -> good P (iret a).
Proof. intros H. exact H. Qed.

Lemma good_bind {A B} (P : A -> Prop) (Q : B -> Prop) (m : I A) (f : A -> I B) :
  good P m -> (forall a, P a -> good Q (f a)) -> good Q (ibind m f).
Proof.
  unfold good, ibind. destruct m as [[a l]|e|]; auto. intros Ha Hf. specialize (Hf a Ha).
  destruct (f a) as [[b l2]|e|]; auto.
Qed.

Lemma good_weaken {A} (P Q : A -> Prop) m : (forall a, P a -> Q a) -> good P m -> good Q m.
Proof. unfold good. destruct m as [[a l]|e|]; auto. Qed.

Lemma good_ierr msg (Q : unit -> Prop) : Q tt -> good Q (ierr msg).
Proof. intros H. exact H. Qed.

Lemma good_raise {A} (P : A -> Prop) e : e <> ExPopEmpty -> good P (@iraise A e).
Proof. intros H. exact H. Qed.

Definition sr_ok (sr : str -> I str) : Prop := forall t, rfree t -> good rfree (sr t).

(* ---- what scanning a reserved-free string yields ---- *)
Lemma allc_concat_in {A} P (f : A -> str) l a : allc P (concat (map f l)) -> In a l -> allc P (f a).
Proof.
  induction l as [|b l IH]; intros H []; simpl in H; apply allc_app in H as [H1 H2]; [subst; exact H1|auto].
Qed.

Lemma re_scan_allc P r s l tl : re_scan r s = (l, tl) -> allc P s ->
  Forall (fun bm => allc P (fst bm) /\ forall k t, grp (snd bm) k = Some t -> allc P t) l /\ allc P tl.
Proof.
  intros H Hs. apply re_scan_partition in H as [Hp Hm]. pose proof Hs as Hs0.
  rewrite Hp in Hs. apply allc_app in Hs as [Hc Ht]. split; [|exact Ht].
  rewrite Forall_forall in *. intros bm Hb. split.
  - apply (allc_concat_in P _ l bm Hc) in Hb. apply allc_app in Hb as [Hb _]. exact Hb.
  - intros k t Hg. eapply allc_factor; [eapply match_spec_group; [apply Hm; exact Hb|exact Hg]|exact Hs0].
Qed.

Lemma match_spec_allc P r text m : match_spec r text m -> allc P text ->
  (forall k, allc P (grp_s m k)) /\ allc P (takeN (m_start m) text) /\ allc P (dropN (m_end m) text).
Proof.
  intros Sp Ht. split; [|].
  - intros k. unfold grp_s. destruct (grp m k) as [t|] eqn:E; [|apply allc_nil].
    eapply allc_factor; [eapply match_spec_group; eauto|exact Ht].
  - destruct (match_spec_cut _ _ _ Sp) as (before & w & after & Hs & Hb & Ha & _).
    rewrite Hb, Ha. rewrite Hs in Ht. apply allc_app in Ht as [H1 H2]. apply allc_app in H2 as [_ H2]. auto.
Qed.

(* ---- utils.replaceInline / replaceMatch ---- *)
Section ReplGen.
Variable mr sr : str -> I str.
Hypothesis Hmr : sr_ok mr.
Hypothesis Hsr : sr_ok sr.

Lemma replaceInline_good t e : rfree t -> good rfree (replaceInline mr sr (Some t) e).
Proof.
  intros Ht. unfold replaceInline. eapply good_bind with (P := rfree).
  - destruct (truthy (e_macros e)); [apply Hmr; exact Ht|exact Ht].
  - intros a Ha. destruct (truthy (e_spans e)); [apply Hsr; exact Ha|].
    destruct (truthy (e_specials e)); [apply rfree_escape; exact Ha|exact Ha].
Qed.

Lemma replaceMatch_segs_good m ng : (forall k, rfree (grp_s m k)) ->
  forall segs e, Forall (fun bm => rfree (fst bm)) segs -> good rfree (replaceMatch_segs mr sr m ng segs e).
Proof.
  intros Hm. induction segs as [|[before dm] t IH]; intros e Hs; cbn [replaceMatch_segs]; [apply allc_nil|].
  inversion Hs as [|? ? Hb Ht]; subst. cbn [fst] in Hb.
  eapply good_bind with (P := rfree).
  - destruct (Nat.ltb ng _).
    + eapply good_bind with (P := fun _ => True); [exact Logic.I|]. intros _ _. apply allc_nil.
    + eapply good_bind with (P := rfree); [apply replaceInline_good; apply Hm|].
      intros a Ha. destruct (_ && _); [apply rfree_quot; exact Ha|exact Ha].
  - intros x Hx. eapply good_bind with (P := rfree); [apply IH; exact Ht|].
    intros rest Hr. apply allc_app. split; [exact Hb|]. apply allc_app. auto.
Qed.

Lemma replaceMatch_good m ng repl e : (forall k, rfree (grp_s m k)) -> rfree repl ->
  good rfree (replaceMatch mr sr m ng repl e).
Proof.
  intros Hm Hr. unfold replaceMatch. destruct (re_scan re_utils_replaceMatch_0 repl) as [segs tl] eqn:E.
  apply (re_scan_allc (fun x => 2 < x)) in E as [Hl Htl]; [|exact Hr].
  eapply good_bind with (P := rfree).
  - apply replaceMatch_segs_good; [exact Hm|]. eapply Forall_impl; [|exact Hl]. intros a [Ha _]. exact Ha.
  - intros x Hx. apply allc_app. auto.
Qed.
End ReplGen.

Lemma no_macros_ok : sr_ok no_macros.
Proof. intros t Ht. exact Ht. Qed.

Section Repl.
Variable s : ienv.
Variable sr : str -> I str.
Hypothesis Hsr : sr_ok sr.

Definition frag_rfree (f : frag) : Prop := rfree (f_text f) /\ rfree (f_verb f).

Lemma htmlSafeModeFilter_rfree g : rfree (en_repl s) -> rfree g -> rfree (htmlSafeModeFilter s g).
Proof.
  intros Hr Hg. unfold htmlSafeModeFilter. destruct (html_policy (en_mode s)); auto; [apply allc_nil|apply rfree_escape; exact Hg].
Qed.

Lemma replacement_text_good rdef m : rfree (en_repl s) -> rfree (r_repl rdef) -> (forall k, rfree (grp_s m k)) ->
  good rfree (replacement_text s sr rdef m).
Proof.
  intros Hr Ht Hm. unfold replacement_text.
  destruct (starts_with [92] (grp0 m)).
  - apply rfree_escape. specialize (Hm O). unfold grp0. destruct (grp_s m 0); [apply allc_nil|].
    apply allc_cons in Hm as [_ Hm]. exact Hm.
  - assert (G1 : forall g, grp m 1 = Some g -> rfree g).
    { intros g Hg. specialize (Hm 1%nat). unfold grp_s in Hm. rewrite Hg in Hm. exact Hm. }
    destruct (r_filter rdef).
    + apply replaceMatch_good; auto using no_macros_ok.
    + destruct (skipBlockAttributes (en_mode s)); [apply allc_nil|apply replaceMatch_good; auto using no_macros_ok].
    + destruct (grp m 1) as [g|] eqn:Eg; [|discriminate]. apply htmlSafeModeFilter_rfree; auto.
    + destruct (grp m 1) as [g|] eqn:Eg; [|discriminate]. apply G1. reflexivity.
Qed.

Lemma fragReplacement_good rdef : rfree (en_repl s) -> rfree (r_repl rdef) ->
  forall n text, rfree text -> good (Forall frag_rfree) (fragReplacement s sr n rdef text).
Proof.
  intros Hr Ht. induction n as [|n IH]; intros text Htx; cbn [fragReplacement]; [exact Logic.I|].
  destruct (re_search (r_re rdef) text) as [m|] eqn:E.
  2:{ constructor; [split; [exact Htx|apply allc_nil]|constructor]. }
  apply re_search_spec in E. destruct (match_spec_allc (fun x => 2 < x) _ _ _ E Htx) as (Hg & Hb & Ha).
  eapply good_bind with (P := rfree); [apply replacement_text_good; auto|].
  intros rep Hrep. eapply good_bind with (P := Forall frag_rfree); [apply IH; exact Ha|].
  intros rest Hrest. constructor; [split; [exact Hb|apply allc_nil]|].
  constructor; [split; [exact Hrep|apply (Hg O)]|exact Hrest].
Qed.

Lemma iconcat_map_good {A B} (P : A -> Prop) (Q : B -> Prop) (f : A -> I (list B)) l :
  (forall a, P a -> good (Forall Q) (f a)) -> Forall P l -> good (Forall Q) (iconcat_map f l).
Proof.
  intros Hf. induction 1 as [|a l Ha Hl IH]; cbn [iconcat_map]; [constructor|].
  eapply good_bind; [apply Hf; exact Ha|]. intros x Hx. eapply good_bind; [exact IH|].
  intros y Hy. apply Forall_app. auto.
Qed.

Lemma fragReplacements_good n : rfree (en_repl s) -> forall defs, Forall (fun d => rfree (r_repl d)) defs ->
  forall frags, Forall frag_rfree frags -> good (Forall frag_rfree) (fragReplacements s sr n defs frags).
Proof.
  intros Hr. induction defs as [|d ds IH]; intros Hd frags Hf; cbn [fragReplacements]; [exact Hf|].
  inversion Hd; subst. eapply good_bind with (P := Forall frag_rfree).
  - apply iconcat_map_good with (P := frag_rfree); [|exact Hf].
    intros f [Hft Hfv]. destruct (f_done f); [constructor; [split; auto|constructor]|].
    apply fragReplacement_good; auto.
  - intros tmp Htmp. apply IH; auto.
Qed.
End Repl.

(* ---- L4: the shape of a quote match ---- *)
Lemma quotes_shape : exists X, nogroups X = true /\ forall h,
  re_ast (re_quotes_initializeRegExps_0_of h) =
  RSeq (RRep true 0 (Some 1) (RLit 92)) (RSeq (RGrp 1 h) (RSeq (RGrp 2 X) (RBref 1))).
Proof. eexists. split; [|intros h; reflexivity]. reflexivity. Qed.

Lemma consumed_trans s1 s2 s3 a b : consumed s1 s2 a -> consumed s2 s3 b -> consumed s1 s3 (a ++ b).
Proof. unfold consumed. intros -> ->. rewrite app_assoc. reflexivity. Qed.

Theorem quote_decomp qs text m : match_spec (quotesRe qs) text m ->
  exists bs q body, m_groups m = [Some (bs ++ q ++ body ++ q); Some q; Some body] /\
                    allc (fun x => x = 92) bs /\ In q (map q_quote qs).
Proof.
  intros [pre w post p fin Hs Hst Hen Hg Mrun Hrest Hwf].
  destruct quotes_shape as (X & HX & Hshape). unfold quotesRe in Mrun. rewrite Hshape in Mrun.
  set (s0 := mkSt (lenN pre) p (w ++ post) []) in *.
  assert (W0 : wfst text s0). { split; [exists pre; auto|intros n g []]. }
  apply Matches_seq_inv in Mrun as (s1 & M1 & Mrun).
  apply Matches_seq_inv in Mrun as (s2 & M2 & Mrun).
  apply Matches_seq_inv in Mrun as (s3 & M3 & M4).
  (* optional backslash *)
  apply Matches_rep_inv in M1 as (k1 & M1 & _). pose proof (Iter_step text _ _ _ _ M1 W0) as [W1 _].
  apply Iter_set in M1 as (bs & C1 & Hbs & K1 & _).
  (* group 1: one of the quote strings *)
  destruct (Matches_grp_text text _ _ _ _ M2 W1) as (s2' & g1 & q & Mh & C2 & K2 & T1 & R2 & W2).
  unfold quote_alts in Mh. rewrite <- map_map in Mh. apply Matches_ralt_rstr in Mh as (q' & Hq' & Cq' & Kq').
  (* group 2: the quoted text, no groups inside *)
  destruct (Matches_grp_text text _ _ _ _ M3 W2) as (s3' & g2 & body & Mx & C3 & K3 & T2 & R3 & W3).
  pose proof (proj1 nogroups_caps _ _ _ Mx HX) as Kx.
  (* back-reference to group 1 *)
  apply Matches_bref_inv in M4 as (g & Hg1 & C4 & K4).
  rewrite K3, Kx, K2 in Hg1. cbn in Hg1. inversion Hg1; subst g. clear Hg1.
  assert (q' = q).
  { unfold consumed in C2, Cq'. rewrite R2 in C2. rewrite Cq' in C2. apply app_inv_tail in C2. exact C2. }
  subst q'.
  pose proof (consumed_trans _ _ _ _ _ C1 (consumed_trans _ _ _ _ _ C2 (consumed_trans _ _ _ _ _ C3 C4))) as C.
  unfold consumed in C. cbn in C. rewrite Hrest, T1 in C.
  replace (bs ++ q ++ body ++ q) with ((bs ++ q ++ body ++ q)) in C by reflexivity.
  assert (Hw : w = bs ++ q ++ body ++ q).
  { rewrite !app_assoc in C. apply app_inv_tail in C. rewrite C, <- !app_assoc. reflexivity. }
  exists bs, q, body. split; [|split].
  - rewrite Hg, <- Hw. unfold quotesRe. cbn [re_groups re_quotes_initializeRegExps_0_of group_list].
    rewrite K4, K3, Kx, K2. cbn [cap_get Nat.eqb option_map]. rewrite T1, T2. reflexivity.
  - intros x Hx. apply Hbs in Hx. apply lit_match in Hx. exact Hx.
  - exact Hq'.
Qed.

(* ---- the quotes pass conserves placeholders ---- *)
Definition qdefs_ok (qs : list qdef) : Prop :=
  Forall (fun d => rfree (q_quote d) /\ rfree (q_open d) /\ rfree (q_close d)) qs.

Fixpoint cntF (l : list frag) : nat :=
  match l with [] => O | f :: t => (cnt (f_text f) + cntF t)%nat end.

Lemma cntF_app a b : cntF (a ++ b) = (cntF a + cntF b)%nat.
Proof. induction a as [|f a IH]; simpl; [reflexivity|]. rewrite IH. lia. Qed.

Lemma count_lead_spec c : forall s, exists lead, s = lead ++ snd (count_lead c s) /\ takeN (fst (count_lead c s)) s = lead.
Proof.
  induction s as [|x t IH]; cbn [count_lead].
  - exists []. auto.
  - destruct (x =? c).
    + destruct IH as (lead & E & T). destruct (count_lead c t) as [k r]. cbn [fst snd] in *.
      exists (x :: lead). split; [simpl; f_equal; exact E|].
      cbn [takeN]. destruct (N.succ k =? 0) eqn:Ek; [apply N.eqb_eq in Ek; lia|]. rewrite N.pred_succ, T. reflexivity.
    + exists []. auto.
Qed.

Lemma find_quote_spec qre text : forall n idx m, find_quote n qre text idx = Ok (Some m) -> match_spec qre text m.
Proof.
  induction n as [|n IH]; intros idx m H; cbn [find_quote] in H; [discriminate|].
  destruct (re_search_pos qre text idx) as [m'|] eqn:E; [|discriminate].
  destruct (starts_with [92] (grp0 m')); [eapply IH; eauto|].
  inversion H; subst. eapply re_search_pos_spec; eauto.
Qed.

Lemma find_quote_noraise qre text : forall n idx e, find_quote n qre text idx <> Raise e.
Proof.
  induction n as [|n IH]; intros idx e; cbn [find_quote]; [discriminate|].
  destruct (re_search_pos qre text idx) as [m'|]; [|discriminate].
  destruct (starts_with [92] (grp0 m')); [apply IH|discriminate].
Qed.

Lemma quote_getDefinition_In qs q d : quote_getDefinition qs q = Some d -> In d qs.
Proof.
  induction qs as [|d' qs IH]; simpl; [discriminate|]. destruct (str_eqb (q_quote d') q).
  - intros H. inversion H; subst. left. reflexivity.
  - intros H. right. auto.
Qed.

Definition frags_ok (text : str) (r : Res (list frag)) : Prop :=
  match r with
  | Ok l => Forall (fun f => no2 (f_text f)) l /\ cntF l = cnt text
  | Raise e => e <> ExPopEmpty
  | Fuel => True
  end.

Lemma fragQuote_ok qs : qdefs_ok qs -> forall n text, no2 text -> frags_ok text (fragQuote n qs (quotesRe qs) text).
Proof.
  intros Hq. induction n as [|n IH]; intros text Ht; cbn [fragQuote]; [exact Logic.I|].
  destruct (find_quote n (quotesRe qs) text 0) as [[m|]|e|] eqn:E; [| |exfalso; eapply find_quote_noraise; eauto|exact Logic.I].
  2:{ cbn. split; [constructor; [exact Ht|constructor]|lia]. }
  apply find_quote_spec in E.
  destruct (quote_decomp _ _ _ E) as (bs & q & body & Hg & Hbs & Hqin).
  destruct (match_spec_cut _ _ _ E) as (before & w & after0 & Hs & Hb & Ha & Hg0 & _).
  unfold grp in Hg0. rewrite Hg in Hg0. cbn in Hg0. inversion Hg0; subst w; clear Hg0.
  assert (G1 : grp_s m 1 = q) by (unfold grp_s, grp; rewrite Hg; reflexivity).
  assert (G2 : grp_s m 2 = body) by (unfold grp_s, grp; rewrite Hg; reflexivity).
  rewrite G1, G2, Hb, Ha.
  destruct (quote_getDefinition qs q) as [d|] eqn:Ed; [|cbn; discriminate].
  apply quote_getDefinition_In in Ed. unfold qdefs_ok in Hq. rewrite Forall_forall in Hq.
  destruct (Hq d Ed) as (_ & Hopen & Hclose).
  apply in_map_iff in Hqin as (d' & <- & Hd'). destruct (Hq d' Hd') as (Hqq & _ & _).
  destruct (count_lead_spec (hd 0 (q_quote d')) after0) as (lead & Hlead & Tlead). rewrite Tlead.
  set (after := snd (count_lead (hd 0 (q_quote d')) after0)) in *.
  (* the pieces of the text *)
  rewrite Hs in Ht. apply allc_app in Ht as [Hbefore Ht]. apply allc_app in Ht as [Hw Hafter0].
  apply allc_app in Hw as [_ Hw]. apply allc_app in Hw as [_ Hw]. apply allc_app in Hw as [Hbody _].
  rewrite Hlead in Hafter0. apply allc_app in Hafter0 as [Hleadp Hafter].
  assert (Hquoted : no2 (body ++ lead)) by (apply allc_app; auto).
  assert (Cbs : cnt bs = O). { apply rfree_cnt. intros x Hx. apply Hbs in Hx. lia. }
  assert (Cq : cnt (q_quote d') = O) by (apply rfree_cnt; exact Hqq).
  assert (Ctext : cnt text = (cnt before + cnt (body ++ lead) + cnt after)%nat).
  { rewrite Hs, Hlead, !cnt_app, Cbs, Cq. lia. }
  assert (Inner : frags_ok (body ++ lead)
            (if negb (q_spans d) then Ok [done (replace_char 0 1 (escape (body ++ lead)))]
             else fragQuote n qs (quotesRe qs) (body ++ lead))).
  { destruct (negb (q_spans d)); [|apply IH; exact Hquoted]. cbn. split.
    - constructor; [|constructor]. cbn. apply no2_replace_char, no2_escape. exact Hquoted.
    - rewrite cnt_replace_char, cnt_escape. lia. }
  destruct (if negb (q_spans d) then _ else _) as [mid|e|]; [|exact Inner|exact Logic.I].
  specialize (IH after Hafter). destruct (fragQuote n qs (quotesRe qs) after) as [rest|e|]; [|exact IH|exact Logic.I].
  destruct Inner as [Fm Cm]. destruct IH as [Fr Cr]. cbn. split.
  - constructor; [exact Hbefore|]. constructor; [cbn; apply rfree_no2; exact Hopen|].
    apply Forall_app. split; [exact Fm|]. constructor; [cbn; apply rfree_no2; exact Hclose|exact Fr].
  - cbn. rewrite cntF_app. cbn. rewrite (rfree_cnt _ Hopen), (rfree_cnt _ Hclose), Cm, Cr, Ctext. lia.
Qed.

(* ---- un-escaping of escaped quotes ---- *)
Lemma unescape_shape h : re_ast (re_quotes_initializeRegExps_1_of h) = RSeq (RLit 92) (RGrp 1 h).
Proof. reflexivity. Qed.

Lemma unescape_decomp qs text m : match_spec (unescapeRe qs) text m -> matched m = 92 :: grp_s m 1.
Proof.
  intros [pre w post p fin Hs Hst Hen Hg Mrun Hrest Hwf].
  unfold unescapeRe in Mrun. rewrite unescape_shape in Mrun.
  set (s0 := mkSt (lenN pre) p (w ++ post) []) in *.
  assert (W0 : wfst text s0). { split; [exists pre; auto|intros n g []]. }
  apply Matches_seq_inv in Mrun as (s1 & M1 & M2).
  pose proof (Matches_step text _ _ _ M1 W0) as [W1 _].
  apply Matches_lit in M1 as [C1 K1].
  destruct (Matches_grp_text text _ _ _ _ M2 W1) as (s2' & g1 & q & Mh & C2 & K2 & T1 & R2 & W2).
  pose proof (consumed_trans _ _ _ _ _ C1 C2) as C. unfold consumed in C. cbn in C. rewrite Hrest in C.
  assert (Hw : w = 92 :: q). { change (92 :: q ++ post) with ((92 :: q) ++ post) in C. apply app_inv_tail in C. exact C. }
  unfold matched, grp_s, grp. rewrite Hg. cbn [nth].
  unfold unescapeRe. cbn [re_groups re_quotes_initializeRegExps_1_of group_list]. rewrite K2. cbn [cap_get Nat.eqb option_map nth].
  rewrite T1, Hw. reflexivity.
Qed.

Lemma cnt_concat_map {A} (f g : A -> str) l : (forall a, In a l -> cnt (f a) = cnt (g a)) ->
  cnt (concat (map f l)) = cnt (concat (map g l)).
Proof.
  induction l as [|a l IH]; intros H; simpl; [reflexivity|]. rewrite !cnt_app, IH, (H a) by (try left; auto; intros; apply H; right; auto).
  reflexivity.
Qed.

Lemma quotes_unescape_ok qs s : no2 s -> no2 (quotes_unescape qs s) /\ cnt (quotes_unescape qs s) = cnt s.
Proof.
  intros Hs. unfold quotes_unescape, re_sub. destruct (re_scan (unescapeRe qs) s) as [l tl] eqn:E.
  pose proof (re_scan_allc (fun x => x <> 2) _ _ _ _ E Hs) as [Hl Htl].
  apply re_scan_partition in E as [Hp Hm]. rewrite Forall_forall in Hl, Hm. split.
  - apply allc_app. split; [|exact Htl]. apply allc_concat. rewrite Forall_forall. intros x Hx.
    apply in_map_iff in Hx as (bm & <- & Hb). destruct (Hl bm Hb) as [H1 H2]. apply allc_app. split; [exact H1|].
    unfold grp_s. destruct (grp (snd bm) 1) as [t|] eqn:Eg; [eapply H2; eauto|apply allc_nil].
  - rewrite Hp at 1. rewrite !cnt_app. f_equal. apply cnt_concat_map. intros bm Hb.
    rewrite !cnt_app. f_equal. rewrite (unescape_decomp qs s (snd bm)) by (apply Hm; exact Hb). reflexivity.
Qed.

Lemma res_concat_map_ok qs n : qdefs_ok qs -> forall frags, Forall (fun f => no2 (f_text f)) frags ->
  match res_concat_map (fun f => if f_done f then Ok [f] else fragQuote n qs (quotesRe qs) (f_text f)) frags with
  | Ok l => Forall (fun f => no2 (f_text f)) l /\ cntF l = cntF frags
  | Raise e => e <> ExPopEmpty
  | Fuel => True
  end.
Proof.
  intros Hq. induction 1 as [|f frags Hf Hfr IH]; cbn [res_concat_map]; [split; [constructor|reflexivity]|].
  assert (H1 : frags_ok (f_text f) (if f_done f then Ok [f] else fragQuote n qs (quotesRe qs) (f_text f))).
  { destruct (f_done f); [cbn; split; [constructor; [exact Hf|constructor]|lia]|apply fragQuote_ok; auto]. }
  destruct (if f_done f then _ else _) as [a|e|]; [|exact H1|exact Logic.I].
  destruct (res_concat_map _ frags) as [b|e|]; [|exact IH|exact Logic.I].
  destruct H1 as [Fa Ca]. destruct IH as [Fb Cb]. split; [apply Forall_app; auto|]. rewrite cntF_app. cbn. lia.
Qed.

Lemma fragQuotes_ok qs n frags : qdefs_ok qs -> Forall (fun f => no2 (f_text f)) frags ->
  match fragQuotes n qs frags with
  | Ok l => Forall (fun f => no2 (f_text f)) l /\ cntF l = cntF frags
  | Raise e => e <> ExPopEmpty
  | Fuel => True
  end.
Proof.
  intros Hq Hf. unfold fragQuotes. pose proof (res_concat_map_ok qs n Hq frags Hf) as H.
  destruct (res_concat_map _ frags) as [l|e|]; [|exact H|exact Logic.I]. destruct H as [Fl <-].
  clear Hf. induction Fl as [|f l Hx Hl IH]; [split; [constructor|reflexivity]|]. destruct IH as [IH1 IH2].
  cbn [map cntF]. destruct (f_done f).
  - split; [constructor; auto|]. rewrite IH2. reflexivity.
  - destruct (quotes_unescape_ok qs (f_text f) Hx) as [U1 U2]. split; [constructor; auto|]. cbn. rewrite U2, IH2. reflexivity.
Qed.

(* ---- the final scan for placeholders ---- *)
Definition rp := re_spans_postReplacements_0.

Lemma rp_shape : rp = {| re_ast := RSet false [IRange 0 0; IRange 1 1]; re_groups := 0 |}.
Proof. reflexivity. Qed.

Lemma rp_class x : set_match false [IRange 0 0; IRange 1 1] x = is_ph x.
Proof.
  unfold set_match, in_items, is_ph. cbn. rewrite orb_false_r.
  destruct (N.leb_spec 0 x), (N.leb_spec x 0), (N.leb_spec 1 x), (N.leb_spec x 1); cbn; try reflexivity; lia.
Qed.

Lemma match_at_rp i p x t :
  match_at rp i p (x :: t) = if is_ph x then Some {| m_start := i; m_end := i + 1; m_groups := [Some [x]] |} else None.
Proof.
  unfold match_at. rewrite rp_shape. cbn [re_ast re_groups exec]. rewrite rp_class. destruct (is_ph x); [|reflexivity].
  cbn [kfinal option_map mk_mres group_list]. replace (i + 1 - i) with 1 by lia. cbn [takeN N.eqb N.pred]. destruct t; reflexivity.
Qed.

Fixpoint split_ph (s : str) : option (str * char * str) :=
  match s with
  | [] => None
  | x :: t => if is_ph x then Some ([], x, t)
              else match split_ph t with Some (b, y, a) => Some (x :: b, y, a) | None => None end
  end.

Lemma split_ph_none s : split_ph s = None -> cnt s = O.
Proof.
  induction s as [|x t IH]; simpl; [reflexivity|]. destruct (is_ph x); [discriminate|].
  destruct (split_ph t) as [[[b y] a]|]; [discriminate|]. intros _. rewrite IH; reflexivity.
Qed.

Lemma split_ph_some s b y a : split_ph s = Some (b, y, a) -> s = b ++ y :: a /\ cnt b = O /\ is_ph y = true.
Proof.
  revert b. induction s as [|x t IH]; intros b H; simpl in H; [discriminate|]. destruct (is_ph x) eqn:E.
  - inversion H; subst. auto.
  - destruct (split_ph t) as [[[b' y'] a']|]; [|discriminate]. inversion H; subst.
    destruct (IH b' eq_refl) as (-> & Cb & Hy). simpl. rewrite E. auto.
Qed.

Lemma search_rp : forall rest i p,
  search_from rp i p rest =
  match split_ph rest with
  | None => None
  | Some (b, y, a) => Some {| m_start := i + lenN b; m_end := i + lenN b + 1; m_groups := [Some [y]] |}
  end.
Proof.
  induction rest as [|x t IH]; intros i p; cbn [search_from split_ph]; [reflexivity|].
  rewrite match_at_rp. destruct (is_ph x).
  - simpl lenN. rewrite N.add_0_r. reflexivity.
  - rewrite IH. destruct (split_ph t) as [[[b y] a]|]; [|reflexivity].
    simpl lenN. replace (i + 1 + lenN b) with (i + N.succ (lenN b)) by lia. reflexivity.
Qed.

Lemma scan_rp : forall fuel rest i p, (length rest < length fuel)%nat ->
  exists l tl, scan_loop rp fuel i p rest = (l, tl) /\ length l = cnt rest /\
               Forall (fun bm => cnt (fst bm) = O) l /\ cnt tl = O.
Proof.
  induction fuel as [|u fuel IH]; intros rest i p Hlen; [simpl in Hlen; lia|].
  cbn [scan_loop]. rewrite search_rp. destruct (split_ph rest) as [[[b y] a]|] eqn:E.
  2:{ exists [], rest. apply split_ph_none in E. rewrite E. auto. }
  apply split_ph_some in E as (-> & Cb & Hy). cbn [m_start m_end].
  replace (i + lenN b + 1 =? i + lenN b) with false by (symmetry; apply N.eqb_neq; lia).
  replace (i + lenN b - i) with (lenN b) by lia. replace (i + lenN b + 1 - i) with (lenN b + 1) by lia.
  rewrite takeN_app_exact, dropN_app_plus. cbn [dropN N.eqb N.pred]. rewrite dropN_0.
  destruct (IH a (i + lenN b + 1) (Some (last (takeN (lenN b + 1) (b ++ y :: a)) 0))) as (l1 & tl1 & E1 & L1 & F1 & T1).
  { simpl in Hlen. rewrite app_length in Hlen. simpl in Hlen. lia. }
  rewrite E1. exists ((b, {| m_start := i + lenN b; m_end := i + lenN b + 1; m_groups := [Some [y]] |}) :: l1), tl1.
  split; [reflexivity|]. split; [|split; [constructor; auto|exact T1]].
  rewrite cnt_app. simpl. rewrite Hy, Cb, L1. reflexivity.
Qed.

Lemma re_scan_rp s : exists l tl, re_scan rp s = (l, tl) /\ length l = cnt s /\
  (no2 s -> Forall (fun bm => rfree (fst bm)) l /\ rfree tl).
Proof.
  unfold re_scan. destruct (scan_rp (tt :: units s) s 0 None) as (l & tl & E & L & F & T).
  { simpl. assert (U : length (units s) = length s) by (clear; induction s; simpl; auto). lia. }
  exists l, tl. split; [exact E|]. split; [exact L|]. intros Hs.
  pose proof (re_scan_allc (fun x => x <> 2) rp s l tl E Hs) as [Hl Htl]. split.
  - rewrite Forall_forall in *. intros bm Hb. apply no2_cnt0_rfree; [apply Hl; exact Hb|apply F; exact Hb].
  - apply no2_cnt0_rfree; auto.
Qed.

Lemma postReplacements_ok : forall segs saved, length segs = length saved ->
  Forall (fun bm => rfree (fst bm)) segs -> Forall frag_rfree saved ->
  exists out, postReplacements segs saved = Ok out /\ rfree out.
Proof.
  induction segs as [|[before m] segs IH]; intros saved Hlen Hs Hf; cbn [postReplacements].
  - exists []. split; [reflexivity|apply allc_nil].
  - destruct saved as [|f saved]; [discriminate|]. inversion Hs; subst. inversion Hf as [|? ? [Hft Hfv] Hf']; subst.
    destruct (IH saved) as (rest & E & Hr); auto. rewrite E. eexists. split; [reflexivity|].
    apply allc_app. split; [assumption|]. apply allc_app. split; [|exact Hr].
    destruct (str_eqb _ _); [exact Hft|apply rfree_escape; exact Hfv].
Qed.

(* ---- spans.render ---- *)
Record env_ok (s : ienv) : Prop := {
  eo_repl : rfree (en_repl s);
  eo_quotes : qdefs_ok (en_quotes s);
  eo_repls : Forall (fun d => rfree (r_repl d)) (en_repls s) }.

Lemma placeholder_text_ok frags : Forall frag_rfree frags ->
  no2 (frag_placeholder_text frags) /\ cnt (frag_placeholder_text frags) = length (filter f_done frags).
Proof.
  unfold frag_placeholder_text. induction 1 as [|f l [Hf _] Hl [IH1 IH2]]; [split; [apply allc_nil|reflexivity]|].
  cbn [flat_map filter]. destruct (f_done f).
  - split; [apply allc_app; split; [intros x [<-|[]]; lia|exact IH1]|]. rewrite cnt_app, IH2. reflexivity.
  - split; [apply allc_app; split; [apply rfree_no2; exact Hf|exact IH1]|]. rewrite cnt_app, IH2, (rfree_cnt _ Hf). reflexivity.
Qed.

Lemma result_ok qfrags : Forall (fun f => no2 (f_text f)) qfrags ->
  let result := flat_map (fun f => if f_done f then f_text f else escape (f_text f)) qfrags in
  no2 result /\ cnt result = cntF qfrags.
Proof.
  induction 1 as [|f l Hf Hl [IH1 IH2]]; [split; [apply allc_nil|reflexivity]|].
  cbn [flat_map cntF]. destruct (f_done f).
  - split; [apply allc_app; auto|]. rewrite cnt_app, IH2. reflexivity.
  - split; [apply allc_app; split; [apply no2_escape; exact Hf|exact IH1]|]. rewrite cnt_app, cnt_escape, IH2. reflexivity.
Qed.

Lemma of_res_good {A} (P : A -> Prop) (r : Res A) :
  match r with Ok a => P a | Raise e => e <> ExPopEmpty | Fuel => True end -> good P (of_res r).
Proof. destruct r; auto. Qed.

Lemma spans_body_good s sr n src : env_ok s -> sr_ok sr -> rfree src -> good rfree (spans_body s sr n src).
Proof.
  intros [Hr Hq Hd] Hsr Hsrc. unfold spans_body.
  eapply good_bind with (P := Forall frag_rfree).
  { apply fragReplacements_good; auto. constructor; [split; [exact Hsrc|apply allc_nil]|constructor]. }
  intros frags Hfr. destruct (placeholder_text_ok frags Hfr) as [Tn Tc].
  set (text := frag_placeholder_text frags) in *.
  eapply good_bind with (P := fun l => Forall (fun f => no2 (f_text f)) l /\ cntF l = cnt text).
  { apply of_res_good. pose proof (fragQuotes_ok (en_quotes s) n [undone text] Hq) as H.
    assert (Hin : Forall (fun f => no2 (f_text f)) [undone text]) by (constructor; [exact Tn|constructor]).
    specialize (H Hin).
    destruct (fragQuotes n (en_quotes s) [undone text]) as [l|e|]; [|exact H|exact Logic.I].
    destruct H as [H1 H2]. split; [exact H1|]. rewrite H2. cbn. lia. }
  intros qfrags [Qn Qc]. destruct (result_ok qfrags Qn) as [Rn Rc].
  set (result := flat_map _ qfrags) in *.
  destruct (re_scan_rp result) as (segs & tl & E & L & F). fold rp. rewrite E. destruct (F Rn) as [Fs Ft].
  destruct (postReplacements_ok segs (filter f_done frags)) as (out & Eo & Ho).
  { rewrite L, Rc, Qc, Tc. reflexivity. }
  { exact Fs. }
  { clear - Hfr. induction Hfr as [|f l Hf Hl IH]; [constructor|]. cbn. destruct (f_done f); [constructor; auto|auto]. }
  rewrite Eo. cbn. apply allc_app. auto.
Qed.

Theorem spans_render_good s : env_ok s -> forall n, sr_ok (spans_render n s).
Proof.
  intros He. induction n as [|n IH]; intros t Ht; cbn [spans_render]; [exact Logic.I|].
  apply spans_body_good; auto.
Qed.

(* a decidable form, for concrete environments *)
Definition rfreeb (s : str) : bool := forallb (fun x => 2 <? x) s.
Lemma rfreeb_spec s : rfreeb s = true -> rfree s.
Proof. unfold rfreeb. rewrite forallb_forall. intros H x Hx. apply H in Hx. apply N.ltb_lt in Hx. exact Hx. Qed.

Definition env_okb (s : ienv) : bool :=
  rfreeb (en_repl s) &&
  forallb (fun d => rfreeb (q_quote d) && rfreeb (q_open d) && rfreeb (q_close d)) (en_quotes s) &&
  forallb (fun d => rfreeb (r_repl d)) (en_repls s).

Lemma env_okb_spec s : env_okb s = true -> env_ok s.
Proof.
  unfold env_okb. intros H. apply andb_prop in H as [H H3]. apply andb_prop in H as [H1 H2].
  constructor.
  - apply rfreeb_spec. exact H1.
  - unfold qdefs_ok. rewrite Forall_forall. rewrite forallb_forall in H2. intros d Hd. apply H2 in Hd.
    apply andb_prop in Hd as [Hd Hc]. apply andb_prop in Hd as [Ha Hb]. auto using rfreeb_spec.
  - rewrite Forall_forall. rewrite forallb_forall in H3. intros d Hd. apply rfreeb_spec. auto.
Qed.

(* the protocol, stated on results *)
Theorem placeholder_protocol s n src : env_ok s -> rfree src ->
  match spans_render n s src with
  | Ok (out, _) => rfree out
  | Raise e => e <> ExPopEmpty
  | Fuel => True
  end.
Proof. intros He Hs. exact (spans_render_good s He n src Hs). Qed.

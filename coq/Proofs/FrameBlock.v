(* Every block-layer function of the model preserves every predicate with [frame_ok]. *)
From Rimu Require Import Base Regex RegexParse Str Types Tables Guards State Inline Block LowerCase Frame.
From Coq Require Import Lia.
Local Open Scope monad_scope.

Section FrameBlock.
Variable P : session -> Prop.
Hypothesis HP : frame_ok P.

(* preservation knowing the current safe mode *)
Definition preservesM {A} (m0 : Z) (m : M A) : Prop :=
  forall s a s', m s = Ok (a, s') -> P s -> s_mode s = m0 -> P s'.

Lemma pm_weaken {A} m0 (m : M A) : preserves P m -> preservesM m0 m.
Proof. intros H s a s' E Hs _. eapply H; eauto. Qed.

Lemma pres_gets_mode {A} (f : Z -> M A) :
  (forall m0, preservesM m0 (f m0)) -> preserves P (bind (gets s_mode) f).
Proof. intros H s a s' E Hs. unfold bind, gets in E. eapply H; eauto. Qed.

Lemma pm_bind_log {A B} m0 (m : M A) (f : A -> M B) :
  log_only m -> (forall a, preservesM m0 (f a)) -> preservesM m0 (bind m f).
Proof.
  intros Hl Hf s b s' E Hs Hm. unfold bind in E.
  destruct (m s) as [[a s1]| |] eqn:E1; try discriminate.
  pose proof (Hl _ _ _ E1) as [l ->]. eapply Hf; eauto. apply fo_log; auto.
Qed.

Lemma pm_ret {A} m0 (a : A) : preservesM m0 (ret a).
Proof. apply pm_weaken, pres_ret. Qed.

Variable fuel : nat.

Ltac pr := pres HP.

Lemma pres_blockattributes_parse attrs : preserves P (blockattributes_parse fuel attrs).
Proof.
  unfold blockattributes_parse. pr; try (pres_mod HP; fail).
  all: try (apply pres_modify; intros s Hs; destruct (attrs_allowed (s_mode s)) eqn:E; auto; apply fo_attrs; auto; fail).
Qed.


Lemma pres_injectHtmlAttributes tag consume : preserves P (injectHtmlAttributes tag consume).
Proof.
  unfold injectHtmlAttributes. destruct tag; [apply pres_ret|]. pr; try (pres_mod HP; fail).
  all: apply pres_modify; intros sx Hsx; unfold register_or_report;
    match goal with |- P (if ?c then _ else _) => destruct c eqn:Ec end; fo HP;
    apply orb_false_iff in Ec as [_ Ec]; apply fo_ids_cons; auto; apply lower_idem.
Qed.

Lemma pres_macros_setValue name value : preserves P (macros_setValue name value).
Proof.
  unfold macros_setValue. apply pres_gets_mode. intros m0.
  destruct (setValue_skip m0) eqn:E; [apply pm_ret|].
  match goal with |- preservesM _ (if ?c then _ else _) => destruct c end.
  - apply pm_weaken, (pres_log_msg _ HP).
  - intros s a s' H Hs Hm. inversion H; subst. apply fo_macros; auto; congruence.
Qed.

Hint Resolve pres_blockattributes_parse pres_injectHtmlAttributes pres_macros_setValue : presdb.

Lemma pres_if_quotes q : preserves_if P (fun s => quoteDefFilter_skip (s_mode s) = false) (quotes_setDefinition q).
Proof.
  intros s a s' H Hs Hg. inversion H; subst.
  destruct (quote_getDefinition _ _); [|destruct (_ =? _)]; apply fo_quotes; auto.
Qed.

Lemma pres_if_repls p f r : preserves_if P (fun s => replacementDefFilter_skip (s_mode s) = false)
                                         (replacements_setDefinition p f r).
Proof.
  intros s a s' H Hs Hg. unfold replacements_setDefinition in H.
  destruct (parse_regex _ _ _); try discriminate.
  - inversion H; subst.
    match goal with |- P (if ?c then _ else _) => destruct c end; apply fo_repls; auto.
  - eapply (pres_log_msg _ HP); eauto.
Qed.

Lemma pres_if_dblocks n v : preserves_if P (fun s => blockDefFilter_skip (s_mode s) = false)
                                         (dblocks_setDefinition n v).
Proof.
  intros s a s' H Hs Hg. unfold dblocks_setDefinition in H. unfold bind, gets in H.
  destruct (negb _).
  - eapply (pres_log_msg _ HP); eauto.
  - destruct (re_search _ _) as [m|]; [|eapply (pres_log_msg _ HP); eauto].
    destruct (grp m 3).
    + destruct (expand_parse _ _ _) as [e msgs]. unfold bind, modify in H.
      eapply (pres_log_msgs _ HP); eauto. apply fo_dblocks; auto.
    + inversion H; subst. apply fo_dblocks; auto.
Qed.

Lemma pres_if_setOption_safeMode v :
  preserves_if P (fun s => apiOptionFilter_skip (s_mode s) = false) (setOption_safeMode v).
Proof.
  intros s a s' H Hs Hg. unfold setOption_safeMode in H.
  assert (Hlog : forall msg s1 a1 s1', log_msg msg s1 = Ok (a1, s1') -> P s1 -> P s1')
    by (intros; eapply (pres_log_msg _ HP); eauto).
  destruct (py_int v) as [n| |]; try (eapply Hlog; eauto; fail).
  destruct (mode_out_of_range n) eqn:E.
  - eapply Hlog; eauto.
  - inversion H; subst. apply fo_mode; auto.
Qed.

Lemma pres_if_setOption_reset v :
  preserves_if P (fun s => apiOptionFilter_skip (s_mode s) = false) (setOption_reset v).
Proof.
  intros s a s' H Hs Hg. unfold setOption_reset in H.
  match type of H with (if ?c then _ else _) _ = _ => destruct c end; [inversion H; subst; auto|].
  match type of H with (if ?c then _ else _) _ = _ => destruct c end.
  - inversion H; subst. apply fo_init; auto.
  - eapply (pres_log_msg _ HP); eauto.
Qed.

Lemma pres_if_setOption_doc n v :
  preserves_if P (fun s => apiOptionFilter_skip (s_mode s) = false) (setOption_doc n v).
Proof.
  intros s a s' H Hs Hg. unfold setOption_doc in H.
  destruct (str_eqb n _); [eapply pres_if_setOption_safeMode; eauto|].
  destruct (str_eqb n _); [eapply pres_if_setOption_reset; eauto|].
  destruct (str_eqb n _).
  - inversion H; subst. apply fo_repl; auto.
  - eapply (pres_log_msg _ HP); eauto.
Qed.

Lemma pm_of_if {A} (G : Z -> bool) m0 (m : M A) :
  G m0 = false -> preserves_if P (fun s => G (s_mode s) = false) m -> preservesM m0 m.
Proof. intros Hg H s a s' E Hs Hm. eapply H; eauto. simpl. congruence. Qed.

Lemma log_only_macros_expand t : log_only (macros_expand fuel t).
Proof. apply log_only_lift. Qed.

Lemma pres_verifyMacroLine m rd : preserves P (verifyMacroLine fuel m rd).
Proof. unfold verifyMacroLine. pr. Qed.

Lemma pres_line_filter d m : preserves P (line_filter fuel d m).
Proof.
  unfold line_filter. destruct (l_filter d).
  - pr.
  - pr.
  - apply pres_gets_mode; intros m0. destruct (blockDefFilter_skip m0) eqn:E; [apply pm_ret|].
    apply pm_bind_log; [apply log_only_macros_expand|]. intros v.
    intros s a s' H Hs Hm. unfold bind in H.
    destruct (dblocks_setDefinition _ _ s) as [[u s1]| |] eqn:E1; try discriminate.
    inversion H; subst. eapply pres_if_dblocks; eauto; simpl; congruence.
  - apply pres_gets_mode; intros m0. destruct (quoteDefFilter_skip m0) eqn:E; [apply pm_ret|].
    apply pm_bind_log; [apply log_only_macros_expand|]. intros o.
    apply pm_bind_log; [apply log_only_macros_expand|]. intros c.
    intros s a s' H Hs Hm. unfold bind in H.
    destruct (quotes_setDefinition _ s) as [[u s1]| |] eqn:E1; try discriminate.
    inversion H; subst. eapply pres_if_quotes; eauto; simpl; congruence.
  - apply pres_gets_mode; intros m0. destruct (replacementDefFilter_skip m0) eqn:E; [apply pm_ret|].
    apply pm_bind_log; [apply log_only_macros_expand|]. intros r.
    intros s a s' H Hs Hm. unfold bind in H.
    destruct (replacements_setDefinition _ _ _ s) as [[u s1]| |] eqn:E1; try discriminate.
    inversion H; subst. eapply pres_if_repls; eauto; simpl; congruence.
  - pr.
  - pr. apply pres_modify; intros; apply fo_id; auto.
  - pr.
  - apply pres_gets_mode; intros m0. destruct (apiOptionFilter_skip m0) eqn:E; [apply pm_ret|].
    apply pm_bind_log; [apply log_only_macros_expand|]. intros v.
    intros s a s' H Hs Hm. unfold bind in H.
    destruct (setOption_doc _ _ s) as [[u s1]| |] eqn:E1; try discriminate.
    inversion H; subst. eapply pres_if_setOption_doc; eauto; simpl; congruence.
Qed.

Hint Resolve pres_verifyMacroLine pres_line_filter : presdb.

Lemma pres_lineblocks_loop defs : forall rd allowed, preserves P (lineblocks_loop fuel defs rd allowed).
Proof.
  induction defs as [|d ds IH]; intros rd allowed; simpl; [apply pres_ret|].
  destruct (_ && _); [apply IH|].
  destruct rd as [|cur rest]; [apply pres_raise|].
  destruct (re_search _ _) as [m|]; [|apply IH].
  destruct (grp0 m) as [|c0 ?]; [apply pres_raise|].
  destruct (c0 =? 92); [apply IH|].
  apply pres_bind.
  { destruct (l_verify d); [apply pres_ret | apply pres_verifyMacroLine |].
    apply pres_bind; [apply pres_blockattributes_parse | intros; apply pres_ret]. }
  intros [ok rd1]. destruct (negb ok); [apply IH|].
  apply pres_bind; [apply pres_line_filter|]. intros text.
  destruct text; [apply pres_ret|].
  apply pres_bind; [apply pres_injectHtmlAttributes | intros; apply pres_ret].
Qed.

Lemma pres_lineblocks_render rd allowed : preserves P (lineblocks_render fuel rd allowed).
Proof. apply pres_lineblocks_loop. Qed.

Hint Resolve pres_lineblocks_render : presdb.

Lemma pres_macroDefContentFilter text m e : preserves P (macroDefContentFilter fuel text m e).
Proof. unfold macroDefContentFilter. pr. Qed.
Hint Resolve pres_macroDefContentFilter : presdb.

Section WithDoc.
Variable doc : str -> M str.
Hypothesis Hdoc : forall t, preserves P (doc t).
Hint Resolve Hdoc : presdb.

Lemma pres_dblock_body i d m rest : preserves P (dblock_body fuel doc i d m rest).
Proof.
  unfold dblock_body. pr; try (pres_mod HP; fail).
Qed.
Hint Resolve pres_dblock_body : presdb.

Lemma pres_dblock_loop k : forall i rd allowed, preserves P (dblock_loop fuel doc k i rd allowed).
Proof.
  induction k as [|k IH]; intros i rd allowed; simpl; [apply pres_ret|].
  apply pres_bind; [apply pres_gets|]. intros od.
  destruct od as [d|]; [|apply pres_ret].
  destruct (_ && _); [apply IH|].
  destruct rd as [|cur rest]; [apply pres_raise|].
  destruct (re_search _ _) as [m|]; [|apply IH].
  destruct (grp0 m) as [|c0 ?]; destruct (str_eqb _ _); try apply pres_raise.
  - destruct (negb _); [apply IH|]. pr.
  - destruct (c0 =? 92); [apply IH|]. destruct (negb _); [apply IH|]. pr.
Qed.

Lemma pres_dblocks_render rd allowed : preserves P (dblocks_render fuel doc rd allowed).
Proof. unfold dblocks_render. apply pres_bind; [apply pres_gets|]. intros; apply pres_dblock_loop. Qed.
Hint Resolve pres_dblocks_render : presdb.

Lemma pres_matchItem rd : preserves P (matchItem rd).
Proof. unfold matchItem. destruct (matchItem_loop _ _); pr. Qed.
Hint Resolve pres_matchItem : presdb.

Lemma pres_consumeBlockAttributes n : forall rd b acc, preserves P (consumeBlockAttributes fuel n rd b acc).
Proof.
  induction n as [|n IH]; intros rd b acc; simpl; [apply pres_fuel|].
  destruct rd as [|l t]; [apply pres_ret|].
  apply pres_bind; [apply pres_lineblocks_render|]. intros [[out|] rd'].
  - apply IH.
  - destruct rd' as [|cur rest]; [apply pres_raise|]. destruct (nonempty cur); [apply pres_ret|apply IH].
Qed.
Hint Resolve pres_consumeBlockAttributes : presdb.

Lemma pres_pop_listid : preserves P pop_listid.
Proof. unfold pop_listid. pr. pres_mod HP. Qed.
Hint Resolve pres_pop_listid : presdb.

Lemma pres_lists n :
  (forall it rd, preserves P (renderList fuel doc n it rd)) /\
  (forall it rd, preserves P (renderItems fuel doc n it rd)) /\
  (forall it rd, preserves P (renderListItem fuel doc n it rd)) /\
  (forall rd il at_ ad, preserves P (itemLoop fuel doc n rd il at_ ad)).
Proof.
  induction n as [|n (IH1 & IH2 & IH3 & IH4)].
  - repeat split; intros; simpl; apply pres_fuel.
  - repeat split; intros; simpl.
    + apply pres_bind; [pres_mod HP|]. intros _.
      apply pres_bind; [apply pres_injectHtmlAttributes|]. intros o.
      apply pres_bind; [apply IH2|]. intros [[body nx] rd'].
      apply pres_bind; [apply pres_pop_listid|]. intros; apply pres_ret.
    + apply pres_bind; [apply IH3|]. intros [[out nx] rd'].
      destruct nx as [nx|]; [|apply pres_ret].
      destruct (str_eqb _ _); [|apply pres_ret].
      apply pres_bind; [apply IH2|]. intros [[out2 nn] rd2]. apply pres_ret.
    + apply pres_bind.
      { destruct (nonempty _); [|apply pres_ret]. pr. pres_mod HP. }
      intros head. apply pres_bind; [apply pres_injectHtmlAttributes|]. intros iopen.
      destruct (item_text it); [|apply pres_raise].
      apply pres_bind; [apply IH4|]. intros [[[nx rd'] il] at_]. pr.
    + apply pres_bind; [apply pres_consumeBlockAttributes|]. intros [[bl out] rd1].
      destruct (_ || _); [apply pres_ret|].
      apply pres_bind; [apply pres_matchItem|]. intros [nx rd2].
      destruct nx as [nx|].
      * apply pres_bind; [apply pres_gets|]. intros is_open. destruct is_open; [apply pres_ret|].
        apply pres_bind; [apply IH1|]. intros [[o nn] rd3]. apply pres_ret.
      * destruct ad; [apply pres_ret|].
        destruct (bl =? 0)%Z.
        { apply pres_bind; [apply pres_gets|]. intros saved.
          apply pres_bind; [pres_mod HP|]. intros _.
          apply pres_bind; [apply pres_dblocks_render|]. intros r.
          apply pres_bind; [pres_mod HP|]. intros _.
          destruct r as [[o|] rd3]; [apply IH4|].
          destruct rd3; [apply pres_raise|apply IH4]. }
        destruct (bl =? 1)%Z; [|apply pres_fuel].
        apply pres_bind; [apply pres_gets|]. intros saved.
        apply pres_bind; [pres_mod HP|]. intros _.
        apply pres_bind; [apply pres_dblocks_render|]. intros r.
        apply pres_bind; [pres_mod HP|]. intros _.
        destruct r as [[o|] rd3]; [apply IH4|apply pres_ret].
Qed.

Lemma pres_lists_render n rd : preserves P (lists_render fuel doc n rd).
Proof.
  unfold lists_render. apply pres_bind; [apply pres_matchItem|]. intros [[it|] rd']; [|apply pres_ret].
  apply pres_bind; [pres_mod HP|]. intros _.
  apply pres_bind; [apply (proj1 (pres_lists n))|]. intros [[out nx] rd2]. pr.
Qed.

Lemma pres_doc_loop n : forall rd, preserves P (doc_loop fuel doc n rd).
Proof.
  induction n as [|n IH]; intros rd; simpl; [apply pres_fuel|].
  destruct (skipBlankLines rd) as [|l t]; [apply pres_ret|].
  apply pres_bind; [apply pres_lineblocks_render|]. intros [[out|] rd'].
  - apply pres_bind; [apply IH|]. intros; apply pres_ret.
  - apply pres_bind; [apply pres_lists_render|]. intros [[out|] rd2].
    + apply pres_bind; [apply IH|]. intros; apply pres_ret.
    + apply pres_bind; [apply pres_dblocks_render|]. intros [[out|] rd3].
      * apply pres_bind; [apply IH|]. intros; apply pres_ret.
      * apply pres_fuel.
Qed.
End WithDoc.

End FrameBlock.

(* document.render preserves every predicate with frame_ok, for every fuel *)
Theorem pres_doc_render P (HP : frame_ok P) :
  forall n text, preserves P (doc_render n text).
Proof.
  induction n as [|n IH]; intros text; simpl; [apply pres_fuel|].
  apply pres_doc_loop; auto.
Qed.

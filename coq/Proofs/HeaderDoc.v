(* C08: a header line.  "## title" (one to six hash signs, title over the safe alphabet) renders to <h2>title</h2>: the level
   is the number of hash signs. *)
From Rimu Require Import Base Unicode Regex RegexAnalysis RegexParse Str Types Tables Guards State Inline Block
  Frame FrameBlock FrameInst OptionsLemmas MiscLemmas MoreLemmas Plain TableFacts Lines PlainDoc
  RegexSem MatchLemmas MatchExact ScanLemmas ParaDoc.
From Coq Require Import Lia.
Local Open Scope monad_scope.

Definition hash : char := 35.
Definition header_def : ldef := nth 6 lineblocks_defs dummy_ldef.
Definition hdre : cre := l_re header_def.

(* ---- the replacement template, evaluated ---- *)
Lemma replaceMatch_header mr sr m mk title : grp_s m 1 = mk -> grp_s m 2 = title ->
  mr mk = iret mk -> mr title = iret title -> sr title = iret (escape title) -> sr mk = iret mk ->
  escape mk = mk -> replace_all [34] $"&quot;" mk = mk ->
  replaceMatch mr sr m 2 (l_repl header_def) expand_macros =
  iret ($"<h" ++ mk ++ $">" ++ escape title ++ $"</h" ++ mk ++ $">").
Proof.
  intros G1 G2 Hm1 Hm2 Hs2 Hs1 He Hq. unfold replaceMatch.
  vm_compute (re_scan re_utils_replaceMatch_0 (l_repl header_def)). cbv beta iota. cbn [replaceMatch_segs].
  cbn [grp_s grp grp0 nth m_groups].
  repeat match goal with |- context [digit_val ?d] => let v := eval vm_compute in (digit_val d) in change (digit_val d) with v end.
  cbn [N.to_nat]. change (Pos.to_nat 1) with 1%nat. change (Pos.to_nat 2) with 2%nat. cbn [Nat.ltb Nat.leb].
  repeat match goal with |- context [str_eqb ?a ?b] => let v := eval vm_compute in (str_eqb a b) in change (str_eqb a b) with v end.
  cbn [andb negb truthy e_spans e_macros e_specials e_container e_skip expand_macros].
  fold (grp_s m 1). fold (grp_s m 2). rewrite G1, G2.
  unfold replaceInline. cbn [truthy e_spans e_macros e_specials].
  rewrite Hm1, Hm2. rewrite !ibind_iret_l. rewrite Hs2, Hs1. rewrite !ibind_iret_l. rewrite He, Hq.
  cbn [app]. rewrite ?app_nil_r. repeat (rewrite <- app_assoc; cbn [app]). reflexivity.
Qed.

(* ---- the header pattern on  marker blank title ---- *)
Definition hset : list citem :=
  match re_ast hdre with
  | RSeq _ (RSeq _ (RSeq (RGrp _ (RRep _ _ _ (RSet false it))) _)) => it
  | _ => []
  end.
Definition hsp : list citem :=
  match re_ast hdre with
  | RSeq _ (RSeq _ (RSeq _ (RSeq (RRep _ _ _ (RSet false sp)) _))) => sp
  | _ => []
  end.

Lemma hdre_shape :
  re_ast hdre = RSeq (RBol false) (RSeq (RRep true 0 (Some 1) (RLit 92)) (RSeq (RGrp 1 (RRep true 1 (Some 6) (RSet false hset)))
     (RSeq (RRep true 1 None (RSet false hsp)) (RSeq (RGrp 2 (RRep false 1 None (RAny false)))
        (RSeq (RRep true 0 (Some 1) (RSeq (RRep true 1 None (RSet false hsp)) (RBref 1))) (REol false)))))) /\
  re_groups hdre = 2%nat /\ wf_exact (re_ast hdre) = true /\ nullable (re_ast hdre) = false /\
  set_match false hset hash = true /\ set_match false hset 32 = false /\
  (forall x, set_match false hsp x = is_space x).
Proof.
  repeat split; try reflexivity.
  intros x. unfold set_match, in_items. change hsp with [ICat CatSpace false]. cbn [existsb in_item xorb negb orb].
  change (in_cat CatSpace x) with (is_space x). destruct (is_space x); reflexivity.
Qed.

Definition marker_ok (mk : str) : Prop := mk <> [] /\ (forall x, In x mk -> x = hash) /\ (length mk <= 6)%nat.

Definition title_ok (title : str) : Prop :=
  over safe_alphabet title /\ exists c t, title = c :: t /\ is_space c = false /\ is_space (last title c) = false.

Lemma safe_facts_h : forallb (fun x => negb (x =? hash) && negb (x =? 10)) safe_alphabet = true.
Proof. vm_compute. reflexivity. Qed.

Lemma safe_char_h x : In x safe_alphabet -> x <> hash /\ x <> 10.
Proof.
  intros Hx. pose proof safe_facts_h as H. rewrite forallb_forall in H. apply H in Hx. apply andb_prop in Hx as [H1 H2].
  apply negb_true_iff in H1, H2. apply N.eqb_neq in H1, H2. auto.
Qed.

Definition hd_final (mk title : str) : mst :=
  mkSt (lenN mk + 1 + lenN title) (last_of (Some 32) title) []
       [(2%nat, {| c_s := lenN mk + 1; c_e := lenN mk + 1 + lenN title; c_txt := title |});
        (1%nat, {| c_s := 0; c_e := lenN mk; c_txt := mk ++ 32 :: title |})].

Lemma iter_any_run : forall n s s', iterR (mx (RAny false)) n s s' ->
  exists u, st_rest s = u ++ st_rest s' /\ st_c s' = st_c s /\ st_i s' = st_i s + lenN u /\ st_p s' = last_of (st_p s) u /\ length u = n.
Proof.
  induction n as [|n IH]; intros s s' H; cbn [iterR] in H.
  - subst s'. exists []. cbn. rewrite N.add_0_r. auto.
  - destruct H as (s1 & (x & t & Hr & Hx & ->) & H2). apply IH in H2 as (u & Eu & Hc & Hi & Hp & Hl). cbn in *.
    exists (x :: u). rewrite Hr, Eu. cbn. repeat split; auto; try (rewrite Hi; lia); try congruence.
Qed.

Lemma iter_any_intro : forall u i p z c, (forall x, In x u -> x <> 10) ->
  iterR (mx (RAny false)) (length u) (mkSt i p (u ++ z) c) (mkSt (i + lenN u) (last_of p u) z c).
Proof.
  induction u as [|x u IH]; intros i p z c Hu; cbn [length iterR app lenN last_of].
  - rewrite N.add_0_r. reflexivity.
  - exists (mkSt (i + 1) (Some x) (u ++ z) c). split.
    + exists x, (u ++ z). cbn. repeat split; auto. replace (x =? 10) with false; [reflexivity|].
      symmetry. apply N.eqb_neq. apply Hu. left. reflexivity.
    + replace (i + N.succ (lenN u)) with (i + 1 + lenN u) by lia. apply IH. intros y Hy. apply Hu. right. exact Hy.
Qed.

(* a run of marker characters followed by a blank is the marker *)
Lemma marker_run mk title u w rest' : marker_ok mk -> (forall x, In x u -> set_match false hset x = true) ->
  is_space w = true -> mk ++ 32 :: title = u ++ w :: rest' -> u = mk /\ w = 32 /\ rest' = title.
Proof.
  intros (_ & Hmk & _) Hu Hw. destruct hdre_shape as (_ & _ & _ & _ & Hh & H32 & _).
  revert u Hu. induction mk as [|a mk IH]; intros u Hu E.
  - destruct u as [|b u]; cbn in E; inversion E; subst; [auto|]. rewrite Hu in H32 by (left; reflexivity). discriminate.
  - destruct u as [|b u]; cbn in E; inversion E; subst.
    + exfalso. rewrite (Hmk w (or_introl eq_refl)) in Hw. vm_compute in Hw. discriminate.
    + destruct (IH (fun x Hx => Hmk x (or_intror Hx)) u (fun x Hx => Hu x (or_intror Hx)) H1) as (-> & -> & ->). auto.
Qed.

Lemma hd_derivation p mk title s' : marker_ok mk -> title_ok title ->
  mx (re_ast hdre) (mkSt 0 p (mk ++ 32 :: title) []) s' -> p = None -> s' = hd_final mk title.
Proof.
  intros Hmk [Htitle (c & t & Et & Hc & _)] H Hp. destruct hdre_shape as (Sh & _ & _ & _ & Hh & H32 & Hsp). rewrite Sh in H. cbn [mx] in H.
  destruct H as (s0 & [-> _] & s1 & (n1 & Hbs & _ & _) & s2 & (s1' & (k & Hrun & Hk & _) & ->) & s3 & (n3 & Hsp1 & Hn3 & _) &
                 s4 & (s3' & (n4 & Hany & Hn4 & _) & ->) & s5 & (n5 & Hopt & _ & Hmax5) & [-> Heol]).
  pose proof Hmk as (Hne & Hall & _).
  assert (s1 = mkSt 0 p (mk ++ 32 :: title) []).
  { destruct n1 as [|n1]; [exact Hbs|]. exfalso. cbn [iterR mx] in Hbs. destruct Hbs as (sx & (z & tz & Hrz & Hz & _) & _).
    apply lit_match in Hz. subst z. cbn in Hrz. destruct mk as [|a mk]; [congruence|]. cbn in Hrz. inversion Hrz.
    specialize (Hall a (or_introl eq_refl)). subst a. discriminate. }
  subst s1.
  apply iter_set_run in Hrun as (u & Eu & Hu & Hc1 & Hi1 & Hp1 & Hl1). cbn [st_rest st_i st_p st_c] in *.
  apply iter_set_run in Hsp1 as (u2 & Eu2 & Hu2 & Hc2 & Hi2 & Hp2 & Hl2). cbn [st_rest st_i st_p st_c] in *.
  destruct u2 as [|w u2]; [simpl in Hl2; lia|]. rewrite Eu2 in Eu. cbn [app] in Eu.
  destruct (marker_run mk title u w (u2 ++ st_rest s3) Hmk Hu) as (-> & -> & Et2); [rewrite <- Hsp; apply Hu2; left; reflexivity|exact Eu|].
  assert (u2 = []).
  { destruct u2 as [|y u2]; [reflexivity|]. exfalso. rewrite Et in Et2. cbn in Et2. inversion Et2; subst y.
    specialize (Hu2 c (or_intror (or_introl eq_refl))). rewrite Hsp in Hu2. congruence. }
  subst u2. cbn [app lenN last_of] in *.
  apply iter_any_run in Hany as (w4 & Ew & Hc4 & Hi4 & Hp4 & Hl4). cbn [st_rest st_i st_p st_c] in *.
  (* no closing marker: the title holds no hash sign *)
  assert (s5 = mkSt (st_i s3') (st_p s3') (st_rest s3')
                    ((2%nat, {| c_s := st_i s3; c_e := st_i s3'; c_txt := st_rest s3 |}) :: st_c s3')).
  { destruct n5 as [|n5]; [exact Hopt|]. exfalso. cbn [iterR mx] in Hopt.
    destruct Hopt as (sx & (sy & (k2 & Hs2 & _ & _) & (g & rest' & p' & Hg & Hstrip & _)) & _).
    apply iter_set_run in Hs2 as (u5 & Eu5 & _ & Hc5 & _). cbn [st_rest st_c] in *.
    rewrite Hc5 in Hg. cbn [cap_get Nat.eqb] in Hg. rewrite Hc4, Hc2, Hc1 in Hg. cbn [cap_get Nat.eqb] in Hg. inversion Hg; subst g. clear Hg.
    unfold cap_text in Hstrip. cbn [c_s c_e c_txt] in Hstrip. rewrite Hi1 in Hstrip.
    replace (0 + lenN mk - 0) with (lenN mk) in Hstrip by lia. rewrite takeN_app_exact in Hstrip.
    apply strip_prefix_app in Hstrip. destruct mk as [|a mk0]; [congruence|].
    assert (Hin : In a title).
    { rewrite <- Et2, Ew. apply in_or_app. right. rewrite Eu5, Hstrip. apply in_or_app. right. left. reflexivity. }
    rewrite (Hall a (or_introl eq_refl)) in Hin. apply Htitle in Hin. apply safe_char_h in Hin. tauto. }
  subst s5. cbn [st_rest st_i st_p st_c] in *.
  assert (Hend : st_rest s3' = []).
  { unfold eol_ok in Heol. destruct (st_rest s3') as [|y r] eqn:Er; [reflexivity|]. exfalso.
    apply andb_prop in Heol as [Hy _]. apply N.eqb_eq in Hy. subst y.
    assert (Hin : In 10 title) by (rewrite <- Et2, Ew; apply in_or_app; right; left; reflexivity).
    apply Htitle in Hin. apply safe_char_h in Hin. tauto. }
  rewrite Hend in Ew. rewrite app_nil_r in Ew. subst w4.
  unfold hd_final. rewrite Hend, Hi4, Hi2, Hi1, Hc4, Hc2, Hc1, Hp4, Hp2, Et2. cbn [lenN app].
  replace (0 + lenN mk + N.succ 0) with (lenN mk + 1) by lia. replace (0 + lenN mk) with (lenN mk) by lia.
  rewrite Hi1. replace (0 + lenN mk) with (lenN mk) by lia. reflexivity.
Qed.

Lemma hd_exists mk title : marker_ok mk -> title_ok title ->
  mx (re_ast hdre) (mkSt 0 None (mk ++ 32 :: title) []) (hd_final mk title).
Proof.
  intros (Hne & Hall & Hlen) [Htitle (c & t & Et & Hc & _)]. destruct hdre_shape as (Sh & _ & _ & _ & Hh & H32 & Hsp). rewrite Sh. cbn [mx].
  set (cap1 := (1%nat, {| c_s := 0; c_e := lenN mk; c_txt := mk ++ 32 :: title |})).
  exists (mkSt 0 None (mk ++ 32 :: title) []). split; [split; reflexivity|].
  exists (mkSt 0 None (mk ++ 32 :: title) []). split; [exists O; cbn; repeat split; lia|].
  exists (mkSt (lenN mk) (last_of None mk) (32 :: title) [cap1]). split.
  { exists (mkSt (0 + lenN mk) (last_of None mk) (32 :: title) []). split; [|unfold cap1; cbn [st_i st_p st_rest st_c]; f_equal; lia].
    exists (length mk). split; [apply iter_set_intro; intros x Hx; rewrite (Hall x Hx); exact Hh|].
    split; [destruct mk; [congruence|cbn [length]; lia]|unfold max_ok; lia]. }
  exists (mkSt (lenN mk + 1) (Some 32) title [cap1]). split.
  { exists 1%nat. split; [|split; [lia|exact Logic.I]]. cbn [iterR mx].
    exists (mkSt (lenN mk + 1) (Some 32) title [cap1]). split; [|reflexivity].
    exists 32, title. cbn [st_rest st_i st_p st_c]. split; [reflexivity|]. split; [rewrite Hsp; reflexivity|reflexivity]. }
  assert (Hnl : forall x, In x title -> x <> 10) by (intros x Hx; apply Htitle in Hx; apply safe_char_h in Hx; tauto).
  exists (hd_final mk title). split.
  { exists (mkSt (lenN mk + 1 + lenN title) (last_of (Some 32) title) [] [cap1]). split; [|reflexivity].
    exists (length title). split.
    - pose proof (iter_any_intro title (lenN mk + 1) (Some 32) [] [cap1] Hnl) as Hi. rewrite app_nil_r in Hi. exact Hi.
    - split; [rewrite Et; cbn [length]; lia|exact Logic.I]. }
  exists (hd_final mk title). split; [exists O; cbn; repeat split; lia|]. split; reflexivity.
Qed.

Definition hd_line (mk title : str) : str := mk ++ 32 :: title.

Lemma search_of_match_at r i p rest m : match_at r i p rest = Some m -> search_from r i p rest = Some m.
Proof. intros H. destruct rest; cbn [search_from]; rewrite H; reflexivity. Qed.

Lemma hd_match mk title : marker_ok mk -> title_ok title ->
  exists m, re_search hdre (hd_line mk title) = Some m /\ m_groups m = [Some (hd_line mk title); Some mk; Some title].
Proof.
  intros Hmk Ht. destruct hdre_shape as (_ & Hng & Hwf & _). destruct (exec_exact _ Hwf) as [S C]. unfold hd_line.
  assert (Hex : match_at hdre 0 None (mk ++ 32 :: title) <> None).
  { apply (proj2 (match_at_iff _ _ _ _ Hwf)). exists (hd_final mk title). apply hd_exists; auto. }
  unfold match_at in Hex.
  destruct (exec (re_ast hdre) kfinal 0 None (mk ++ 32 :: title) []) as [[e cc]|] eqn:E; [|cbn in Hex; congruence].
  pose proof E as E'. apply S in E' as (s' & M & Hk). apply (hd_derivation None mk title s' Hmk Ht) in M; [|reflexivity]. subst s'.
  unfold kapp, kfinal, hd_final in Hk. cbn [st_i st_p st_rest st_c] in Hk. inversion Hk; subst e cc. clear Hk.
  eexists. split.
  - unfold re_search. apply search_of_match_at. unfold match_at. rewrite E. reflexivity.
  - cbn [option_map mk_mres m_groups]. rewrite Hng. cbn [group_list cap_get Nat.eqb option_map]. unfold cap_text. cbn [c_s c_e c_txt].
    replace (lenN mk + 1 + lenN title - 0) with (lenN (mk ++ 32 :: title)) by (rewrite lenN_app; cbn [lenN]; lia).
    replace (lenN mk - 0) with (lenN mk) by lia.
    replace (lenN mk + 1 + lenN title - (lenN mk + 1)) with (lenN title) by lia.
    rewrite !takeN_all. rewrite takeN_app_exact. reflexivity.
Qed.

(* ---- str.replace on the rendered header ---- *)
Lemma drop_prefix_self (w rest : str) : drop_prefix w (w ++ rest) = Some rest.
Proof. induction w as [|x w IH]; [reflexivity|]. cbn [app drop_prefix]. rewrite N.eqb_refl. exact IH. Qed.

Lemma drop_prefix_first c0 old' x t : x <> c0 -> drop_prefix (c0 :: old') (x :: t) = None.
Proof. intros H. cbn [drop_prefix]. replace (c0 =? x) with false; [reflexivity|]. symmetry. apply N.eqb_neq. congruence. Qed.

Lemma replace_all_skip c0 old' new : forall pre fuel rest, (forall x, In x pre -> x <> c0) -> (length pre <= length fuel)%nat ->
  replace_all_fuel fuel (c0 :: old') new (pre ++ rest) = pre ++ replace_all_fuel (skipn (length pre) fuel) (c0 :: old') new rest.
Proof.
  induction pre as [|x pre IH]; intros fuel rest Hp Hf; [reflexivity|].
  destruct fuel as [|u fuel]; [simpl in Hf; lia|]. cbn [app replace_all_fuel length skipn].
  rewrite (drop_prefix_first c0 old' x (pre ++ rest) (Hp x (or_introl eq_refl))).
  f_equal. apply IH; [intros y Hy; apply Hp; right; exact Hy|simpl in Hf; lia].
Qed.

Lemma replace_all_hit c0 old' new u fuel rest :
  replace_all_fuel (u :: fuel) (c0 :: old') new ((c0 :: old') ++ rest) = new ++ replace_all_fuel fuel (c0 :: old') new rest.
Proof. cbn [app replace_all_fuel]. change (c0 :: old' ++ rest) with ((c0 :: old') ++ rest). rewrite drop_prefix_self. reflexivity. Qed.

Lemma replace_header mk new escT : marker_ok mk -> (forall x, In x escT -> x <> hash) ->
  replace_all (mk ++ [62]) new ($"<h" ++ mk ++ $">" ++ escT ++ $"</h" ++ mk ++ $">") = $"<h" ++ new ++ escT ++ $"</h" ++ new.
Proof.
  intros (Hne & Hall & _) Hesc. destruct mk as [|c0 mk0] eqn:Emk; [congruence|]. rewrite <- Emk in *.
  assert (Hc0 : c0 = hash) by (apply Hall; rewrite Emk; left; reflexivity).
  assert (Eold : mk ++ [62] = c0 :: (mk0 ++ [62])) by (rewrite Emk; reflexivity).
  unfold replace_all. rewrite Eold.
  set (old' := mk0 ++ [62]).
  assert (Ht : $"<h" ++ mk ++ $">" ++ escT ++ $"</h" ++ mk ++ $">" = $"<h" ++ (c0 :: old') ++ (escT ++ $"</h") ++ (c0 :: old') ++ [])
    by (unfold old'; rewrite Emk; cbn [app]; repeat (rewrite <- app_assoc; cbn [app]); rewrite ?app_nil_r; reflexivity).
  rewrite Ht. clear Ht.
  set (E := escT ++ $"</h").
  assert (HE : forall x, In x E -> x <> c0).
  { intros x Hx. unfold E in Hx. apply in_app_or in Hx as [Hx|Hx]; [rewrite Hc0; apply Hesc; exact Hx|].
    rewrite Hc0. cbn in Hx. intuition; subst; discriminate. }
  set (T := $"<h" ++ (c0 :: old') ++ E ++ (c0 :: old') ++ []).
  assert (HL : length (units T) = length T) by (clear; induction T; simpl; auto).
  assert (Hfu : (length (units T) = 2 + S (length old') + length E + S (length old'))%nat).
  { rewrite HL. unfold T. rewrite !app_length. cbn [length]. change (Datatypes.length ($"<h")) with 2%nat. lia. }
  clear HL. generalize dependent (units T). intros fuT Hfu.
  unfold T.
  rewrite (replace_all_skip c0 old' new ($"<h") (tt :: fuT) _);
    [|intros x [<-|[<-|[]]]; rewrite Hc0; discriminate|change (Datatypes.length ($"<h")) with 2%nat; cbn [length]; lia].
  change (Datatypes.length ($"<h")) with 2%nat.
  destruct fuT as [|u1 [|u2 fu]]; [cbn [length] in Hfu; lia|cbn [length] in Hfu; lia|].
  cbn [skipn]. rewrite replace_all_hit. cbn [length] in Hfu.
  rewrite (replace_all_skip c0 old' new E fu _); [|exact HE|lia].
  destruct (skipn (length E) fu) as [|u3 fu3] eqn:Es.
  - exfalso. assert (Hs : length (skipn (length E) fu) = (length fu - length E)%nat) by apply skipn_length.
    rewrite Es in Hs. cbn [length] in Hs. lia.
  - rewrite replace_all_hit. destruct fu3; cbn [replace_all_fuel]; rewrite ?app_nil_r; unfold E; cbn [app]; rewrite <- ?app_assoc; reflexivity.
Qed.

(* ---- the line-block stage ---- *)
Definition h_alphabet : list char := safe_alphabet ++ [hash].
Definition before_header : list ldef := firstn 6 lineblocks_defs.

Lemma header_facts :
  l_verify header_def = LvNone /\ l_filter header_def = LfHeader /\ re_groups hdre = 2%nat /\
  lineblocks_defs = before_header ++ header_def :: skipn 7 lineblocks_defs /\
  forallb (fun d => never_matches h_alphabet [hash] (re_ast (l_re d))) before_header = true /\
  no_macro_start hash = true /\ In hash plain_alphabet.
Proof. repeat split; try reflexivity. vm_compute. intuition. Qed.

Lemma lineblocks_loop_skip fuel l rest s post : forall pre,
  (forall d, In d pre -> re_search (l_re d) l = None) ->
  lineblocks_loop fuel (pre ++ post) (l :: rest) [] s = lineblocks_loop fuel post (l :: rest) [] s.
Proof.
  induction pre as [|d pre IH]; intros H; [reflexivity|]. cbn [app lineblocks_loop andb].
  rewrite (H d (or_introl eq_refl)). apply IH. intros d' Hd'. apply H. right. exact Hd'.
Qed.

Lemma lineblocks_loop_unfold fuel d ds rd allowed :
  lineblocks_loop fuel (d :: ds) rd allowed =
  (if (match allowed with [] => false | _ => true end) && negb (mem (l_name d) allowed)
   then lineblocks_loop fuel ds rd allowed
   else
     match rd with
     | [] => raise ExAssert
     | cur :: rest =>
         match re_search (l_re d) cur with
         | None => lineblocks_loop fuel ds rd allowed
         | Some m =>
             match grp0 m with
             | [] => raise ExIndex
             | c0 :: _ =>
                 if c0 =? 92 then lineblocks_loop fuel ds (tl cur :: rest) allowed
                 else
                   vr <- (match l_verify d with
                          | LvNone => ret (true, rd)
                          | LvMacroLine => verifyMacroLine fuel m rd
                          | LvAttributes => b <- blockattributes_parse fuel (grp0 m) ;; ret (b, rd)
                          end) ;;
                   let '(ok, rd1) := vr in
                   if negb ok then lineblocks_loop fuel ds rd1 allowed
                   else
                     text <- line_filter fuel d m ;;
                     match text with
                     | [] => ret (Some [], tl rd1)
                     | _ =>
                         text' <- injectHtmlAttributes text true ;;
                         let rd2 := tl rd1 in
                         ret (Some (text' ++ match rd2 with [] => [] | _ => [10] end), rd2)
                     end
             end
         end
     end).
Proof. reflexivity. Qed.

Lemma marker_escape mk : (forall x, In x mk -> x = hash) -> escape mk = mk /\ replace_all [34] $"&quot;" mk = mk.
Proof.
  intros H. split.
  - unfold escape. induction mk as [|x mk IH]; [reflexivity|]. cbn [flat_map]. rewrite (H x (or_introl eq_refl)).
    change (escape_char hash) with [hash]. cbn [app]. f_equal. apply IH. intros y Hy. apply H. right. exact Hy.
  - unfold replace_all.
    assert (Hl : (length mk <= length (tt :: units mk))%nat) by (simpl; clear; induction mk; simpl; lia).
    pose proof (replace_all_skip 34 [] ($"&quot;") mk (tt :: units mk) [] (fun x Hx => ltac:(rewrite (H x Hx); discriminate)) Hl) as H0.
    rewrite app_nil_r in H0. eapply eq_trans; [exact H0|]. destruct (skipn (length mk) (tt :: units mk)); cbn [replace_all_fuel]; apply app_nil_r.
Qed.

Definition level_str (mk : str) : str := str_of_N (lenN mk).

Lemma level_digit mk : marker_ok mk -> level_str mk = [48 + lenN mk].
Proof.
  intros (Hne & _ & Hlen). unfold level_str.
  destruct mk as [|a [|b [|c [|d [|e [|f [|g mk]]]]]]]; try congruence; try reflexivity. simpl in Hlen. lia.
Qed.

Definition header_ids_off (s : session) : Prop := opt_nonempty (assoc_get $"--header-ids" (s_macros s)) = false.

Section Header.
Variable fuel' : nat.
Let fuel := S (S (S fuel')).

Lemma header_line mk title rest s : quiet_default s -> header_ids_off s -> marker_ok mk -> title_ok title ->
  lineblocks_render fuel (hd_line mk title :: rest) [] s =
  Ok ((Some ($"<h" ++ (level_str mk ++ $">") ++ escape title ++ $"</h" ++ (level_str mk ++ $">") ++ match rest with [] => [] | _ => [10] end), rest), s).
Proof.
  intros Hq Hoff Hmk Ht. pose proof Hq as (Hd & Hr & Hqt & Hp & Ho).
  destruct header_facts as (Fv & Ff & Fng & Fsplit & Fbefore & Fms & Fpl).
  destruct (hd_match mk title Hmk Ht) as (m & Hm & Hg).
  pose proof Hmk as (Hne & Hall & _). pose proof Ht as [Htitle _].
  unfold lineblocks_render. rewrite Fsplit. rewrite lineblocks_loop_skip.
  2:{ intros d Hd0. rewrite forallb_forall in Fbefore. specialize (Fbefore d Hd0).
      unfold hd_line. destruct mk as [|a mk0] eqn:Emk; [congruence|]. cbn [app].
      eapply never_matches_sound; [exact Fbefore|left; symmetry; apply Hall; left; reflexivity|].
      unfold h_alphabet. intros x Hx. apply in_or_app.
      change (a :: mk0 ++ 32 :: title) with ((a :: mk0) ++ 32 :: title) in Hx.
      apply in_app_or in Hx as [Hx|[<-|Hx]]; [right; left; symmetry; apply Hall; exact Hx|left; vm_compute; intuition|left; auto]. }
  rewrite lineblocks_loop_unfold. cbn [andb]. fold hdre. rewrite Hm.
  assert (G0 : grp0 m = hd_line mk title) by (unfold grp0, grp_s, grp; rewrite Hg; reflexivity).
  assert (G1 : grp_s m 1 = mk) by (unfold grp_s, grp; rewrite Hg; reflexivity).
  assert (G2 : grp_s m 2 = title) by (unfold grp_s, grp; rewrite Hg; reflexivity).
  rewrite G0. unfold hd_line at 1. destruct mk as [|a mk0] eqn:Emk; [congruence|]. cbn [app].
  assert (Ha : a = hash) by (apply Hall; left; reflexivity). replace (a =? 92) with false by (rewrite Ha; reflexivity).
  rewrite <- Emk in *. rewrite Fv. unfold bind at 1. cbn [ret negb].
  unfold line_filter. rewrite Ff. unfold bind at 1. unfold bind at 1. unfold gets at 1.
  unfold header_ids_off in Hoff. rewrite Hoff. cbn [andb ret].
  unfold bind at 1. unfold lift. fold hdre. rewrite Fng. unfold replaceMatch_top.
  assert (Henv : defaults (ienv_of s)) by (apply quiet_defaults; exact Hq).
  destruct (marker_escape mk Hall) as [Hem Hqm].
  assert (Hqmk : forall x, In x mk -> no_macro_start x = true) by (intros x Hx; rewrite (Hall x Hx); exact Fms).
  assert (H2mk : negb (existsb (N.eqb 2) mk) = true).
  { apply negb_true_iff. destruct (existsb (N.eqb 2) mk) eqn:E; [|reflexivity]. apply existsb_exists in E as (x & Hx & Ex).
    apply N.eqb_eq in Ex. subst x. pose proof (Hall 2 Hx) as H2h. discriminate H2h. }
  assert (Hplmk : plain_text mk) by (intros x Hx; rewrite (Hall x Hx); exact Fpl).
  assert (Hqt' : forall x, In x title -> no_macro_start x = true).
  { intros x Hx. apply Htitle in Hx. pose proof safe_no_macro_start as H. rewrite forallb_forall in H. auto. }
  assert (H2t : negb (existsb (N.eqb 2) title) = true).
  { apply negb_true_iff. destruct (existsb (N.eqb 2) title) eqn:E; [|reflexivity]. apply existsb_exists in E as (x & Hx & Ex).
    apply N.eqb_eq in Ex. subst x. apply Htitle in Hx. pose proof safe_no_special as H. rewrite forallb_forall in H. apply H in Hx.
    apply andb_true_iff in Hx as [_ Hx]. discriminate Hx. }
  unfold ret at 1. cbv iota beta. unfold bind at 1.
  rewrite (replaceMatch_header _ _ m mk title G1 G2).
  - cbn [iret log_msgs bind ret]. rewrite G1.
    assert (Hesc : forall x, In x (escape title) -> x <> hash).
    { intros x Hx. apply in_escape in Hx as [Hx|Hx]; [apply Htitle in Hx; apply safe_char_h in Hx; tauto|].
      cbn in Hx. intuition; subst; discriminate. }
    pose proof (replace_header mk (level_str mk ++ [62]) (escape title) Hmk Hesc) as Hrh. unfold level_str in Hrh.
    unfold reader, str, char in *. rewrite Hrh. fold (level_str mk).
    change ($"<h") with (60 :: 104 :: @nil N). cbn [app]. unfold bind at 1.
    rewrite inject_nothing_pending by exact Hp. cbn [ret tl].
    unfold ret. f_equal. f_equal. f_equal. f_equal. cbn [app]. repeat (rewrite <- app_assoc; cbn [app]). reflexivity.
  - unfold macros_render_top. apply macros_render_identity; assumption.
  - unfold macros_render_top. apply macros_render_identity; assumption.
  - unfold fuel. apply spans_render_plain; [exact Henv|apply safe_over_plain; exact Htitle].
  - unfold fuel. rewrite spans_render_plain; [rewrite Hem; reflexivity|exact Henv|exact Hplmk].
  - exact Hem.
  - exact Hqm.
Qed.
End Header.

(* ---- the document ---- *)
Lemma hd_line_chars mk title : marker_ok mk -> title_ok title -> forall x, In x (hd_line mk title) -> is_nl x = false /\ reserved x = false.
Proof.
  intros (_ & Hall & _) [Htitle _] x Hx. unfold hd_line in Hx. apply in_app_or in Hx as [Hx|[<-|Hx]].
  - rewrite (Hall x Hx). split; reflexivity.
  - split; reflexivity.
  - apply Htitle in Hx. pose proof safe_no_special as F. rewrite forallb_forall in F. apply F in Hx. apply andb_prop in Hx as [H1 H2].
    apply negb_true_iff in H1, H2. auto.
Qed.

Lemma hd_reader mk title : marker_ok mk -> title_ok title -> mk_reader (hd_line mk title) = [hd_line mk title].
Proof.
  intros Hmk Ht. rewrite mk_reader_spec.
  assert (Hb : blank_reserved (hd_line mk title) = hd_line mk title).
  { unfold blank_reserved. rewrite <- (map_id (hd_line mk title)) at 2. apply map_ext_in. intros x Hx.
    destruct (hd_line_chars mk title Hmk Ht x Hx) as [_ Hr]. unfold reserved in Hr. rewrite Hr. reflexivity. }
  rewrite Hb. unfold split_lines.
  pose proof (split_aux_prefix (hd_line mk title) [] [] (fun x Hx => proj1 (hd_line_chars mk title Hmk Ht x Hx))) as E. rewrite app_nil_r in E.
  rewrite E. cbn [split_lines_aux]. rewrite split_aux_nil_cur_frev. reflexivity.
Qed.

Theorem header_document n mk title s : quiet_default s -> header_ids_off s -> marker_ok mk -> title_ok title ->
  doc_render (S (S (S (S (S n))))) (hd_line mk title) s =
  Ok ($"<h" ++ level_str mk ++ $">" ++ escape title ++ $"</h" ++ level_str mk ++ $">", s).
Proof.
  intros Hq Hoff Hmk Ht.
  change (doc_render (S (S (S (S (S n))))) (hd_line mk title)) with
    (doc_loop (S (S (S (S n)))) (doc_render (S (S (S (S n))))) (S (S (S (S n)))) (mk_reader (hd_line mk title))).
  rewrite (hd_reader mk title Hmk Ht).
  rewrite (TableFacts.doc_loop_line_block (S (S (S (S n)))) (doc_render (S (S (S (S n))))) (S (S (S n))) [hd_line mk title] (hd_line mk title) []
             ($"<h" ++ (level_str mk ++ $">") ++ escape title ++ $"</h" ++ (level_str mk ++ $">") ++ []) [] s s).
  - rewrite (TableFacts.doc_loop_blank_only _ _ (S (S n)) [] s) by reflexivity. rewrite !app_nil_r.
    repeat (rewrite <- app_assoc; cbn [app]). reflexivity.
  - unfold hd_line. destruct Hmk as (Hne & Hall & _). destruct mk as [|a mk0]; [congruence|]. cbn [app skipBlankLines].
    rewrite strip_nonblank; [reflexivity|]. rewrite (Hall a (or_introl eq_refl)). reflexivity.
  - apply (header_line (S n) mk title [] s Hq Hoff Hmk Ht).
Qed.

(* ---- C17: an escaped header line is a paragraph with the literal text ---- *)
Definition esc_alphabet : list char := safe_alphabet ++ [hash; 92].

Lemma escaped_header_facts :
  forallb (fun d => never_matches esc_alphabet [92] (re_ast (l_re d))) before_header = true /\
  forallb (fun d => never_matches h_alphabet [hash] (re_ast (l_re d))) (skipn 7 lineblocks_defs) = true /\
  forallb (fun d => never_matches h_alphabet [hash] (re_ast (li_re d))) lists_defs = true /\
  forallb (fun d => never_matches h_alphabet [hash] (re_ast (d_openRe d))) (removelast dblocks_default) = true.
Proof. repeat split; vm_compute; reflexivity. Qed.

Lemma hd_line_over mk title : marker_ok mk -> title_ok title -> over h_alphabet (hd_line mk title).
Proof.
  intros (_ & Hall & _) [Htitle _] x Hx. unfold hd_line in Hx. unfold h_alphabet. apply in_or_app.
  apply in_app_or in Hx as [Hx|[<-|Hx]]; [right; left; symmetry; apply Hall; exact Hx|left; vm_compute; intuition|left; auto].
Qed.

Lemma hd_line_first mk title : marker_ok mk -> exists t, hd_line mk title = hash :: t.
Proof.
  intros (Hne & Hall & _). unfold hd_line. destruct mk as [|a mk0]; [congruence|]. rewrite (Hall a (or_introl eq_refl)). cbn [app]. eauto.
Qed.

Lemma hd_nomatch (r : cre) mk title : marker_ok mk -> title_ok title ->
  never_matches h_alphabet [hash] (re_ast r) = true -> re_search r (hd_line mk title) = None.
Proof.
  intros Hmk Ht H. destruct (hd_line_first mk title Hmk) as (t & E). pose proof (hd_line_over mk title Hmk Ht) as Ho. rewrite E in *.
  eapply never_matches_sound; [exact H|left; reflexivity|exact Ho].
Qed.

Lemma hd_escaped_exists mk title : marker_ok mk -> title_ok title ->
  exists s', mx (re_ast hdre) (mkSt 0 None (92 :: mk ++ 32 :: title) []) s'.
Proof.
  intros (Hne & Hall & Hlen) [Htitle (c & t & Et & Hc & _)]. destruct hdre_shape as (Sh & _ & _ & _ & Hh & H32 & Hsp). rewrite Sh. cbn [mx].
  set (cap1 := (1%nat, {| c_s := 0 + 1; c_e := 0 + 1 + lenN mk; c_txt := mk ++ 32 :: title |})).
  assert (Hnl : forall x, In x title -> x <> 10) by (intros x Hx; apply Htitle in Hx; apply safe_char_h in Hx; tauto).
  eexists.
  exists (mkSt 0 None (92 :: mk ++ 32 :: title) []). split; [split; reflexivity|].
  exists (mkSt (0 + 1) (Some 92) (mk ++ 32 :: title) []). split.
  { exists 1%nat. split; [|split; [lia|unfold max_ok; lia]]. cbn [iterR mx].
    exists (mkSt (0 + 1) (Some 92) (mk ++ 32 :: title) []). split; [|reflexivity]. exists 92, (mk ++ 32 :: title). cbn. auto. }
  exists (mkSt (0 + 1 + lenN mk) (last_of (Some 92) mk) (32 :: title) [cap1]). split.
  { exists (mkSt (0 + 1 + lenN mk) (last_of (Some 92) mk) (32 :: title) []). split; [|reflexivity].
    exists (length mk). split; [apply iter_set_intro; intros x Hx; rewrite (Hall x Hx); exact Hh|].
    split; [destruct mk; [congruence|cbn [length]; lia]|unfold max_ok; lia]. }
  exists (mkSt (0 + 1 + lenN mk + 1) (Some 32) title [cap1]). split.
  { exists 1%nat. split; [|split; [lia|exact Logic.I]]. cbn [iterR mx].
    exists (mkSt (0 + 1 + lenN mk + 1) (Some 32) title [cap1]). split; [|reflexivity].
    exists 32, title. cbn [st_rest st_i st_p st_c]. split; [reflexivity|]. split; [rewrite Hsp; reflexivity|reflexivity]. }
  set (fin := mkSt (0 + 1 + lenN mk + 1 + lenN title) (last_of (Some 32) title) []
                   ((2%nat, {| c_s := 0 + 1 + lenN mk + 1; c_e := 0 + 1 + lenN mk + 1 + lenN title; c_txt := title |}) :: [cap1])).
  exists fin. split.
  { exists (mkSt (0 + 1 + lenN mk + 1 + lenN title) (last_of (Some 32) title) [] [cap1]). split; [|reflexivity].
    exists (length title). split.
    - pose proof (iter_any_intro title (0 + 1 + lenN mk + 1) (Some 32) [] [cap1] Hnl) as Hi. rewrite app_nil_r in Hi. exact Hi.
    - split; [rewrite Et; cbn [length]; lia|exact Logic.I]. }
  exists fin. split; [exists O; cbn; repeat split; lia|]. split; reflexivity.
Qed.

Lemma hd_escaped_match mk title : marker_ok mk -> title_ok title ->
  exists m t, re_search hdre (92 :: hd_line mk title) = Some m /\ grp0 m = 92 :: t.
Proof.
  intros Hmk Ht. destruct hdre_shape as (_ & _ & Hwf & Hn & _).
  destruct (hd_escaped_exists mk title Hmk Ht) as (s' & M).
  assert (Hex : match_at hdre 0 None (92 :: hd_line mk title) <> None) by (apply (proj2 (match_at_iff _ _ _ _ Hwf)); eauto).
  destruct (match_at hdre 0 None (92 :: hd_line mk title)) as [m|] eqn:E; [|congruence].
  exists m. pose proof (search_of_match_at _ _ _ _ _ E) as Hs. fold (re_search hdre (92 :: hd_line mk title)) in Hs.
  pose proof (match_at_start _ _ _ _ _ E) as Hst.
  destruct (re_search_spec _ _ _ Hs) as [pre w post p fin Htext Hst' Hen Hg Mrun Hrest Hwfc].
  assert (pre = []) by (apply lenN_0; lia). subst pre. cbn [app] in Htext.
  pose proof (proj2 (proj1 nonnull_consumes _ _ _ Mrun) Hn) as Hlt. cbn [st_rest] in Hlt. rewrite Hrest, app_length in Hlt.
  destruct w as [|w0 w]; [simpl in Hlt; lia|]. cbn [app] in Htext. inversion Htext; subst w0.
  exists w. split; [exact Hs|]. unfold grp0, grp_s, grp. rewrite Hg. reflexivity.
Qed.

Section Escaped.
Variable fuel' : nat.
Let fuel := S (S (S (S fuel'))).
Variable doc : str -> M str.

Lemma escaped_header_line mk title s : marker_ok mk -> title_ok title ->
  lineblocks_render fuel [92 :: hd_line mk title] [] s = Ok ((None, [hd_line mk title]), s).
Proof.
  intros Hmk Ht. destruct header_facts as (Fv & Ff & Fng & Fsplit & _).
  destruct escaped_header_facts as (Fb & Fa & _ & _).
  destruct (hd_escaped_match mk title Hmk Ht) as (m & t & Hm & G0).
  unfold lineblocks_render. rewrite Fsplit. rewrite lineblocks_loop_skip.
  2:{ intros d Hd0. rewrite forallb_forall in Fb. specialize (Fb d Hd0).
      eapply never_matches_sound; [exact Fb|left; reflexivity|].
      pose proof (hd_line_over mk title Hmk Ht) as Ho. unfold esc_alphabet. intros x [<-|Hx]; apply in_or_app; [right; right; left; reflexivity|].
      apply Ho in Hx. unfold h_alphabet in Hx. apply in_app_or in Hx as [Hx|[<-|[]]]; [left; exact Hx|right; left; reflexivity]. }
  rewrite lineblocks_loop_unfold. cbn [andb]. fold hdre. rewrite Hm. rewrite G0. replace (92 =? 92) with true by reflexivity. cbn [tl].
  rewrite <- (app_nil_r (skipn 7 lineblocks_defs)). rewrite lineblocks_loop_skip.
  - reflexivity.
  - intros d Hd0. rewrite forallb_forall in Fa. apply hd_nomatch; auto.
Qed.

Theorem escaped_header_document mk title s : quiet_default s -> marker_ok mk -> title_ok title ->
  doc_loop fuel doc (S (S fuel')) [92 :: hd_line mk title] s = Ok ($"<p>" ++ escape (hd_line mk title) ++ $"</p>", s).
Proof.
  intros Hq Hmk Ht. destruct escaped_header_facts as (_ & _ & Fli & Fdb).
  destruct (hd_line_first mk title Hmk) as (t0 & E0).
  rewrite (TableFacts.doc_loop_delimited_block fuel doc (S fuel') [92 :: hd_line mk title] (92 :: hd_line mk title) []
             [hd_line mk title] [hd_line mk title] ($"<p>" ++ escape (hd_line mk title) ++ $"</p>") [] s s s s).
  - rewrite (TableFacts.doc_loop_blank_only fuel doc fuel' [] s) by reflexivity. rewrite app_nil_r. reflexivity.
  - cbn [skipBlankLines]. rewrite strip_nonblank; reflexivity.
  - apply escaped_header_line; assumption.
  - unfold lists_render, bind, matchItem. rewrite matchItem_loop_none; [reflexivity|].
    intros d Hd. rewrite forallb_forall in Fli. apply hd_nomatch; auto.
  - apply (g_stage_para' (hd_line mk title) (escape (hd_line mk title)) fuel' doc s).
    + rewrite E0. eauto.
    + intros x Hx. apply (hd_line_chars mk title Hmk Ht x Hx).
    + intros k. unfold replaceInline_top, replaceInline, para_expand. cbn [truthy e_macros e_spans].
      unfold macros_render_top. rewrite macros_render_identity.
      * rewrite ibind_iret_l. apply spans_render_plain; [apply quiet_defaults; exact Hq|].
        intros x Hx. apply (hd_line_over mk title Hmk Ht) in Hx. unfold h_alphabet in Hx.
        apply in_app_or in Hx as [Hx|[<-|[]]]; [apply (safe_over_plain [x]); [intros y [<-|[]]; exact Hx|left; reflexivity]|].
        destruct header_facts as (_ & _ & _ & _ & _ & _ & Fpl). exact Fpl.
      * intros x Hx. apply (hd_line_over mk title Hmk Ht) in Hx. unfold h_alphabet in Hx.
        apply in_app_or in Hx as [Hx|[<-|[]]]; [pose proof safe_no_macro_start as H; rewrite forallb_forall in H; auto|].
        destruct header_facts as (_ & _ & _ & _ & _ & Fms & _). exact Fms.
      * apply negb_true_iff. destruct (existsb (N.eqb 2) (hd_line mk title)) eqn:E; [|reflexivity].
        apply existsb_exists in E as (x & Hx & Ex). apply N.eqb_eq in Ex. subst x.
        destruct (hd_line_chars mk title Hmk Ht 2 Hx) as [_ Hr]. discriminate Hr.
    + intros d Hd. rewrite forallb_forall in Fdb. apply hd_nomatch; auto.
    + exact Hq.
Qed.
End Escaped.

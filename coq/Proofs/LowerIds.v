(* C15: every registered id of every reachable session is lower-case; generated header ids are lower-case. *)
From Rimu Require Import Base Regex RegexParse Str Types Tables Guards State Inline Block LowerCase
  Frame FrameBlock FrameInst OptionsLemmas.
From Coq Require Import Lia.
Local Open Scope monad_scope.

Definition ids_lower (s : session) : Prop := Forall is_lower (s_ids s).

Lemma frame_ok_lower : frame_ok ids_lower.
Proof.
  split; unfold ids_lower; intros;
    try (destruct s; assumption); try (unfold set_closeRe; destruct s; assumption).
  all: try (destruct s; simpl in *; constructor; auto; fail).
  all: simpl; constructor.
Qed.

Theorem reachable_ids_lower s : reachable s -> Forall is_lower (s_ids s).
Proof.
  induction 1 as [|s n src o html s' _ IH H].
  - constructor.
  - rewrite api_render_unfold in H. cbv zeta in H.
    destruct (updateFrom o _) as [[[] s2]| |] eqn:E; try discriminate.
    eapply (pres_doc_render _ frame_ok_lower); eauto. fold (ids_lower s2).
    assert (U : forall s1, ids_lower s1 -> forall s2', updateFrom o s1 = Ok (tt, s2') -> ids_lower s2').
    { unfold ids_lower. intros s1 Hn s2' H2. rewrite updateFrom_unfold in H2.
      assert (R : forall s3 s4, Forall is_lower (s_ids s3) -> setOption_reset (o_reset o) s3 = Ok (tt, s4) -> Forall is_lower (s_ids s4)).
      { intros s3 s4 H3 H4. unfold setOption_reset in H4.
        destruct (reset_is_false _); [inversion H4; subst; auto|].
        destruct (reset_is_true _); inversion H4; subst; [constructor | destruct s3; exact H3]. }
      destruct (setOption_reset _ _) as [[[] s3]| |] eqn:E3; try discriminate.
      eapply R in E3; [|unfold cb_step1; destruct (s_cb s1); [destruct s1|]; exact Hn].
      assert (M : forall v s5 s6, Forall is_lower (s_ids s5) -> setOption_safeMode v s5 = Ok (tt, s6) -> Forall is_lower (s_ids s6)).
      { intros v s5 s6 H5 H6. destruct (legal_mode v) eqn:L.
        - destruct (setOption_safeMode_legal v s5 L) as (k & _ & _ & E6). rewrite E6 in H6. inversion H6; subst. destruct s5; exact H5.
        - rewrite setOption_safeMode_illegal in H6 by auto. inversion H6; subst. destruct s5; exact H5. }
      assert (C2 : Forall is_lower (s_ids (cb_step2 o s3))) by (unfold cb_step2; destruct (o_callback o); [destruct s3|]; exact E3).
      destruct (o_safeMode o) eqn:Es;
        (destruct ((match o_safeMode o with PyNone => ret tt | v => setOption_safeMode (py_str v) end) (cb_step2 o s3))
           as [[[] s4]| |] eqn:E4; rewrite Es in E4; rewrite ?E4 in H2; try discriminate);
        try (apply M in E4; [|exact C2]);
        try (inversion E4; subst);
        destruct (o_htmlReplacement o); inversion H2; subst; try assumption; try (destruct s4; assumption);
        try (destruct (cb_step2 o s3); assumption). }
    destruct (s_mode s =? -1)%Z; (eapply U; [|exact E]); [constructor | exact IH].
Qed.

(* ---- generated ids ---- *)
Lemma slug_suffix_lower : forall budget ids slug i, is_lower slug -> is_lower (slug_suffix budget ids slug i).
Proof.
  unfold is_lower. induction budget as [|b budget IH]; intros ids slug i H; cbn [slug_suffix].
  - rewrite !lower_app, H, lower_str_of_N. reflexivity.
  - destruct (mem _ ids); [apply IH; exact H|]. rewrite !lower_app, H, lower_str_of_N. reflexivity.
Qed.

Theorem slugify_lower ids text : is_lower (slugify ids text).
Proof.
  unfold slugify. cbv zeta.
  set (t := lower _).
  assert (Ht : is_lower (match t with [] => $"x" | _ => t end)).
  { destruct t eqn:E; [reflexivity|]. rewrite <- E. unfold t, is_lower. apply lower_idem. }
  destruct (mem _ ids); [apply slug_suffix_lower; exact Ht|exact Ht].
Qed.

(* C01, inline layer: which exceptions can escape.  spans.render raises nothing (its three internal
   raise sites -- the assert on the quote definition, the group access of the HTML / entity filters, the
   pop of the saved fragments -- are unreachable); macros.render can raise only for a parameter number of
   more than 4300 digits (the known finding) or for a pattern outside the modelled regex subset. *)
From Rimu Require Import Base Unicode Regex RegexSem RegexAnalysis RegexParse Str Types Tables Guards State Inline MatchLemmas Placeholder.
From Coq Require Import Lia.
Local Open Scope monad_scope.

Definition nr {T} (A : exn -> Prop) (m : I T) : Prop := match m with Raise e => A e | _ => True end.

Lemma nr_bind {T U} A (m : I T) (f : T -> I U) : nr A m -> (forall a, nr A (f a)) -> nr A (ibind m f).
Proof.
  unfold nr, ibind. destruct m as [[a l]|e|]; auto. intros _ Hf. specialize (Hf a). destruct (f a) as [[b l2]|e|]; auto.
Qed.

Lemma nr_ret {T} A (a : T) : nr A (iret a).
Proof. exact Logic.I. Qed.

Lemma nr_weaken {T} (A B : exn -> Prop) (m : I T) : (forall e, A e -> B e) -> nr A m -> nr B m.
Proof. unfold nr. destruct m; auto. Qed.

Lemma nr_imapM {T U} A (P : T -> Prop) (f : T -> I U) l : (forall a, P a -> nr A (f a)) -> Forall P l -> nr A (imapM f l).
Proof.
  intros Hf. induction 1 as [|a l Ha Hl IH]; cbn [imapM]; [exact Logic.I|].
  apply nr_bind; [auto|]. intros y. apply nr_bind; [exact IH|]. intros ys. exact Logic.I.
Qed.

Lemma nr_isub A r f s : (forall m, match_spec r s m -> nr A (f m)) -> nr A (isub r f s).
Proof.
  intros Hf. unfold isub. destruct (re_scan r s) as [l tl] eqn:E. apply re_scan_partition in E as [_ Hm].
  apply nr_bind; [|intros; exact Logic.I].
  eapply nr_imapM with (P := fun bm => match_spec r s (snd bm)); [|exact Hm].
  intros bm Hb. apply nr_bind; [apply Hf; exact Hb|]. intros x. exact Logic.I.
Qed.

Lemma nr_iconcat_map {T U} A (f : T -> I (list U)) l : (forall a, nr A (f a)) -> nr A (iconcat_map f l).
Proof.
  intros Hf. induction l as [|a l IH]; cbn [iconcat_map]; [exact Logic.I|].
  apply nr_bind; [auto|]. intros x. apply nr_bind; [exact IH|]. intros y. exact Logic.I.
Qed.

(* ---- spans.render ---- *)
(* the definitions that carry a filter reading group 1 have a pattern in which group 1 takes part in every match *)
Definition filt_ok (d : rdef) : Prop :=
  match r_filter d with
  | RfHtml | RfEntity => always_grp 1 (re_ast (r_re d)) = true /\ (0 < re_groups (r_re d))%nat
  | _ => True
  end.

Section Spans.
Variable A : exn -> Prop.
Variable s : ienv.
Variable sr mr : str -> I str.
Hypothesis Hsr : forall t, nr A (sr t).
Hypothesis Hmr : forall t, nr A (mr t).

Lemma nr_replaceInline t e : nr A (replaceInline mr sr (Some t) e).
Proof.
  unfold replaceInline. apply nr_bind; [destruct (truthy (e_macros e)); [apply Hmr|exact Logic.I]|].
  intros r1. destruct (truthy (e_spans e)); [apply Hsr|]. destruct (truthy (e_specials e)); exact Logic.I.
Qed.

Lemma nr_replaceMatch_segs m ng : forall segs e, nr A (replaceMatch_segs mr sr m ng segs e).
Proof.
  induction segs as [|[before dm] t IH]; intros e; cbn [replaceMatch_segs]; [exact Logic.I|].
  apply nr_bind.
  - destruct (Nat.ltb ng _); [apply nr_bind; [exact Logic.I|intros; exact Logic.I]|].
    apply nr_bind; [apply nr_replaceInline|]. intros; exact Logic.I.
  - intros x. apply nr_bind; [apply IH|]. intros; exact Logic.I.
Qed.

Lemma nr_replaceMatch m ng repl e : nr A (replaceMatch mr sr m ng repl e).
Proof.
  unfold replaceMatch. destruct (re_scan _ repl) as [segs tl]. apply nr_bind; [apply nr_replaceMatch_segs|]. intros; exact Logic.I.
Qed.
End Spans.

Lemma quote_getDefinition_some qs q : In q (map q_quote qs) -> quote_getDefinition qs q <> None.
Proof.
  induction qs as [|d qs IH]; simpl; [intros []|]. intros [E|H].
  - subst. rewrite str_eqb_refl. discriminate.
  - destruct (str_eqb (q_quote d) q); [discriminate|auto].
Qed.

Lemma fragQuote_noraise qs : forall n text e, fragQuote n qs (quotesRe qs) text <> Raise e.
Proof.
  induction n as [|n IH]; intros text e; cbn [fragQuote]; [discriminate|].
  destruct (find_quote n (quotesRe qs) text 0) as [[m|]|e'|] eqn:E; try discriminate.
  2:{ exfalso. eapply find_quote_noraise; eauto. }
  apply find_quote_spec in E. destruct (quote_decomp _ _ _ E) as (bs & q & body & Hg & _ & Hq).
  assert (G1 : grp_s m 1 = q) by (unfold grp_s, grp; rewrite Hg; reflexivity). rewrite G1.
  destruct (quote_getDefinition qs q) as [d|] eqn:Ed; [|exfalso; eapply quote_getDefinition_some; eauto].
  cbv zeta. destruct (negb (q_spans d));
    repeat match goal with
    | |- context [match fragQuote n qs (quotesRe qs) ?t with _ => _ end] =>
        let E := fresh "E" in destruct (fragQuote n qs (quotesRe qs) t) eqn:E; [|exfalso; eapply IH; eauto|]
    end; discriminate.
Qed.

Lemma fragQuotes_noraise qs n frags e : fragQuotes n qs frags <> Raise e.
Proof.
  unfold fragQuotes.
  assert (H : forall l e', res_concat_map (fun f => if f_done f then Ok [f] else fragQuote n qs (quotesRe qs) (f_text f)) l <> Raise e').
  { induction l as [|f l IH]; intros e'; cbn [res_concat_map]; [discriminate|].
    destruct (f_done f).
    - destruct (res_concat_map _ l) eqn:E; try discriminate. exfalso. eapply IH; eauto.
    - destruct (fragQuote n qs (quotesRe qs) (f_text f)) eqn:Eq; try discriminate.
      + destruct (res_concat_map _ l) eqn:E; try discriminate. exfalso. eapply IH; eauto.
      + exfalso. eapply fragQuote_noraise; eauto. }
  destruct (res_concat_map _ frags) eqn:E; try discriminate. exfalso. eapply H; eauto.
Qed.

Definition only_pop (e : exn) : Prop := e = ExPopEmpty.

Lemma postReplacements_only_pop : forall segs saved, match postReplacements segs saved with Raise e => only_pop e | _ => True end.
Proof.
  induction segs as [|[b m] segs IH]; intros saved; cbn [postReplacements]; [exact Logic.I|].
  destruct saved as [|f saved]; [reflexivity|]. specialize (IH saved). destruct (postReplacements segs saved); auto.
Qed.

Section SpansBody.
Variable s : ienv.
Hypothesis Hf : Forall filt_ok (en_repls s).

Lemma nr_replacement_text sr d m : (forall t, nr only_pop (sr t)) ->
  (r_filter d = RfHtml \/ r_filter d = RfEntity -> exists g, grp m 1 = Some g) -> nr only_pop (replacement_text s sr d m).
Proof.
  intros Hsr Hg. unfold replacement_text. destruct (starts_with [92] (grp0 m)); [exact Logic.I|].
  destruct (r_filter d) eqn:Ef.
  - apply nr_replaceMatch; auto. intros t. exact Logic.I.
  - destruct (skipBlockAttributes _); [exact Logic.I|]. apply nr_replaceMatch; auto. intros t. exact Logic.I.
  - destruct Hg as (g & ->); auto. exact Logic.I.
  - destruct Hg as (g & ->); auto. exact Logic.I.
Qed.

Lemma nr_fragReplacement sr d : (forall t, nr only_pop (sr t)) -> filt_ok d ->
  forall n text, nr only_pop (fragReplacement s sr n d text).
Proof.
  intros Hsr Hd. induction n as [|n IH]; intros text; cbn [fragReplacement]; [exact Logic.I|].
  destruct (re_search (r_re d) text) as [m|] eqn:E; [|exact Logic.I]. apply re_search_spec in E.
  apply nr_bind.
  - apply nr_replacement_text; auto. intros Hfl. unfold filt_ok in Hd.
    destruct Hfl as [Hfl|Hfl]; rewrite Hfl in Hd; destruct Hd as [Ha Hk]; eapply match_spec_grp_some; eauto.
  - intros rep. apply nr_bind; [apply IH|]. intros; exact Logic.I.
Qed.

Lemma nr_fragReplacements sr n : (forall t, nr only_pop (sr t)) ->
  forall defs, Forall filt_ok defs -> forall frags, nr only_pop (fragReplacements s sr n defs frags).
Proof.
  intros Hsr. induction defs as [|d ds IH]; intros Hd frags; cbn [fragReplacements]; [exact Logic.I|].
  inversion Hd; subst. apply nr_bind.
  - apply nr_iconcat_map. intros f. destruct (f_done f); [exact Logic.I|]. apply nr_fragReplacement; auto.
  - intros tmp. apply IH. assumption.
Qed.

Lemma nr_spans_body sr n src : (forall t, nr only_pop (sr t)) -> nr only_pop (spans_body s sr n src).
Proof.
  intros Hsr. unfold spans_body. apply nr_bind; [apply nr_fragReplacements; auto|]. intros frags.
  apply nr_bind.
  - destruct (fragQuotes n (en_quotes s) _) eqn:E; try exact Logic.I. exfalso. eapply fragQuotes_noraise; eauto.
  - intros qfrags. destruct (re_scan _ _) as [segs tl]. apply nr_bind; [|intros; exact Logic.I].
    pose proof (postReplacements_only_pop segs (filter f_done frags)) as H. destruct (postReplacements _ _); auto.
Qed.

Theorem nr_spans_render : forall n src, nr only_pop (spans_render n s src).
Proof.
  induction n as [|n IH]; intros src; cbn [spans_render]; [exact Logic.I|]. apply nr_spans_body. exact IH.
Qed.
End SpansBody.

(* with the placeholder protocol: nothing at all is raised *)
Theorem spans_render_never_raises s n src e : env_ok s -> Forall filt_ok (en_repls s) -> rfree src -> spans_render n s src <> Raise e.
Proof.
  intros He Hf Hs H. pose proof (nr_spans_render s Hf n src) as N. pose proof (placeholder_protocol s n src He Hs) as P.
  rewrite H in N, P. cbn in N. unfold only_pop in N. subst e. apply P. reflexivity.
Qed.

(* ---- macros.render ---- *)
(* int() of a non-empty run of decimal digits is a number (or too long), never a ValueError for syntax *)
Lemma in_ranges_bounds c : forall rs, in_ranges c rs = true -> exists lo hi, In (lo, hi) rs /\ lo <= c <= hi.
Proof.
  induction rs as [|[lo hi] t IH]; simpl; [discriminate|]. destruct (c <? lo) eqn:E1; [discriminate|].
  destruct (c <=? hi) eqn:E2.
  - intros _. exists lo, hi. apply N.ltb_ge in E1. apply N.leb_le in E2. split; [left; reflexivity|lia].
  - intros H. destruct (IH H) as (lo' & hi' & Hin & Hb). exists lo', hi'. split; [right; exact Hin|exact Hb].
Qed.

Lemma digit_val_some x : in_ranges x digit_ranges = true -> digit_val x <> None.
Proof.
  unfold digit_val. generalize digit_ranges. induction l as [|[lo hi] t IH]; cbn [in_ranges digit_val_in]; [discriminate|].
  destruct (x <? lo) eqn:E1; [discriminate|]. apply N.ltb_ge in E1. destruct (x <=? hi) eqn:E2.
  - intros _. replace (lo <=? x) with true by (symmetry; apply N.leb_le; exact E1). cbn [andb]. discriminate.
  - intros H. rewrite andb_false_r. auto.
Qed.

Definition N_range (lo hi : N) : list N := map (fun k => lo + N.of_nat k) (seq 0 (S (N.to_nat (hi - lo)))).

Lemma N_range_In lo hi c : lo <= c <= hi -> In c (N_range lo hi).
Proof.
  intros H. unfold N_range. apply in_map_iff. exists (N.to_nat (c - lo)). split; [lia|]. apply in_seq. lia.
Qed.

Lemma spaces_not_digits : forallb (fun r => forallb (fun c => negb (in_ranges c digit_ranges)) (N_range (fst r) (snd r))) space_ranges = true.
Proof. vm_compute. reflexivity. Qed.

Lemma digit_not_space x : in_ranges x digit_ranges = true -> is_space x = false.
Proof.
  intros Hd. unfold is_space. destruct (in_ranges x space_ranges) eqn:Es; [|reflexivity].
  apply in_ranges_bounds in Es as (lo & hi & Hin & Hb). pose proof spaces_not_digits as T.
  rewrite forallb_forall in T. specialize (T _ Hin). cbn [fst snd] in T.
  pose proof (proj1 (forallb_forall _ _) T x (N_range_In lo hi x Hb)) as T2. cbv beta in T2. rewrite Hd in T2. discriminate.
Qed.

Definition digits (w : str) : Prop := forall x, In x w -> in_ranges x digit_ranges = true.

Lemma lstrip_nonspace x t : is_space x = false -> lstrip (x :: t) = x :: t.
Proof. intros H. simpl. rewrite H. reflexivity. Qed.

Lemma strip_digits w : digits w -> strip w = w.
Proof.
  intros Hw. destruct w as [|x t]; [reflexivity|]. unfold strip, rstrip.
  rewrite lstrip_nonspace by (apply digit_not_space, Hw; left; reflexivity).
  rewrite !frev_rev. destruct (rev (x :: t)) as [|y r] eqn:Er.
  - apply (f_equal (@length _)) in Er. rewrite rev_length in Er. discriminate.
  - assert (Hy : In y (x :: t)) by (apply in_rev; rewrite Er; left; reflexivity).
    rewrite lstrip_nonspace by (apply digit_not_space, Hw; exact Hy). rewrite <- Er, rev_involutive. reflexivity.
Qed.

Lemma int_digits_some : forall w acc cnt pd, digits w -> (w <> [] \/ pd = true) -> int_digits w acc cnt pd <> None.
Proof.
  induction w as [|x t IH]; intros acc cnt pd Hw Hne; simpl.
  - destruct Hne as [Hne | ->]; [congruence|discriminate].
  - pose proof (digit_val_some x (Hw x (or_introl eq_refl))) as Hd. destruct (digit_val x) as [d|]; [|congruence].
    apply IH; [intros y Hy; apply Hw; right; exact Hy|right; reflexivity].
Qed.

Lemma py_int_digits w : digits w -> w <> [] -> py_int w <> PInvalid.
Proof.
  intros Hw Hne. unfold py_int. rewrite strip_digits by exact Hw. destruct w as [|x t]; [congruence|].
  assert (Hx : in_ranges x digit_ranges = true) by (apply Hw; left; reflexivity).
  assert (H45 : x <> 45) by (intros ->; vm_compute in Hx; discriminate).
  assert (H43 : x <> 43) by (intros ->; vm_compute in Hx; discriminate).
  assert (Hb : (let '(neg, body) := match x :: t with 45 :: t0 => (true, t0) | 43 :: t0 => (false, t0) | _ => (false, x :: t) end in
                match body with [] => PInvalid | _ => match int_digits body 0 0 false with
                  | Some (n, cnt) => if 4300 <? cnt then PTooLong else PInt (if neg then (- Z.of_N n)%Z else Z.of_N n)
                  | None => PInvalid end end) <> PInvalid).
  { destruct (N.eq_dec x 45) as [->|_]; [congruence|]. destruct (N.eq_dec x 43) as [->|_]; [congruence|].
    assert (Hm : match x :: t with 45 :: t0 => (true, t0) | 43 :: t0 => (false, t0) | _ => (false, x :: t) end = (false, x :: t)).
    { destruct x as [|p]; [reflexivity|]. do 6 (destruct p as [p|p|]; try reflexivity); congruence. }
    rewrite Hm. pose proof (int_digits_some (x :: t) 0 0 false Hw (or_introl Hne)) as Hi.
    destruct (int_digits (x :: t) 0 0 false) as [[n cnt]|]; [|congruence]. destruct (4300 <? cnt); discriminate. }
  exact Hb.
Qed.

(* the shape of the parameter pattern: group 2 is a non-empty run of decimal digits *)
Lemma param_shape : exists A B C,
  re_ast re_macros_render_repl_0 =
    RSeq A (RSeq (RGrp 1 B) (RSeq (RGrp 2 (RRep true 1 None (RSet false [ICat CatDigit false]))) C)) /\
  mentions 2 C = false /\ re_groups re_macros_render_repl_0 = 4%nat.
Proof. do 3 eexists. split; [reflexivity|]. split; reflexivity. Qed.

Lemma digit_class x : set_match false [ICat CatDigit false] x = in_ranges x digit_ranges.
Proof. unfold set_match, in_items. cbn [existsb in_item]. unfold in_cat. generalize (in_ranges x digit_ranges). intros b. destruct b; reflexivity. Qed.

Lemma param_match_digits text m : match_spec re_macros_render_repl_0 text m -> digits (grp_s m 2) /\ grp_s m 2 <> [].
Proof.
  intros [pre w post p fin Hs Hst Hen Hg Mrun Hrest Hwf].
  destruct param_shape as (A & B & C & Hshape & HC & Hng). rewrite Hshape in Mrun. rewrite Hng in Hg.
  set (s0 := mkSt (lenN pre) p (w ++ post) []) in *.
  assert (W0 : wfst text s0). { split; [exists pre; auto|intros n g []]. }
  apply Matches_seq_inv in Mrun as (s1 & M1 & Mrun). apply Matches_seq_inv in Mrun as (s2 & M2 & Mrun).
  apply Matches_seq_inv in Mrun as (s3 & M3 & M4).
  pose proof (Matches_step text _ _ _ M1 W0) as [W1 _]. pose proof (Matches_step text _ _ _ M2 W1) as [W2 _].
  destruct (Matches_grp_text text _ _ _ _ M3 W2) as (s3' & g2 & w2 & Md & C3 & K3 & T2 & R3 & W3).
  apply Matches_rep_inv in Md as (k & It & Hk). apply Iter_set in It as (w' & Cw & Hw' & _ & Hl).
  assert (w' = w2). { unfold consumed in C3, Cw. rewrite R3 in C3. rewrite Cw in C3. apply app_inv_tail in C3. exact C3. }
  subst w'.
  pose proof (proj1 (caps_other 2) _ _ _ M4 HC) as K4. rewrite K3 in K4. cbn in K4.
  assert (G2 : grp_s m 2 = w2).
  { unfold grp_s, grp. rewrite Hg. cbn [nth]. rewrite group_list_nth by lia. rewrite K4. cbn. exact T2. }
  rewrite G2. split.
  - intros x Hx. apply Hw' in Hx. rewrite digit_class in Hx. exact Hx.
  - intros ->. simpl in Hl. cbn in Hk. lia.
Qed.

(* the shape of the invocation pattern of the second pass: group 2 starts with one of ! = | ? *)
Lemma invocation_shape : exists A B X Y,
  re_ast re_macros_render_0 = RSeq A (RSeq (RLit 123) (RSeq (RGrp 1 B) (RSeq (RGrp 2 (RSeq (RSet false X) Y)) (RLit 125)))) /\
  set_match false X 92 = false /\ re_groups re_macros_render_0 = 2%nat.
Proof. do 4 eexists. split; [reflexivity|]. split; reflexivity. Qed.

Lemma invocation_params text m : match_spec re_macros_render_0 text m -> exists x t, grp_s m 2 = x :: t /\ x <> 92.
Proof.
  intros [pre w post p fin Hs Hst Hen Hg Mrun Hrest Hwf].
  destruct invocation_shape as (A & B & X & Y & Hshape & HX & Hng). rewrite Hshape in Mrun. rewrite Hng in Hg.
  set (s0 := mkSt (lenN pre) p (w ++ post) []) in *.
  assert (W0 : wfst text s0). { split; [exists pre; auto|intros n g []]. }
  apply Matches_seq_inv in Mrun as (s1 & M1 & Mrun). apply Matches_seq_inv in Mrun as (s2 & M2 & Mrun).
  apply Matches_seq_inv in Mrun as (s3 & M3 & Mrun). apply Matches_seq_inv in Mrun as (s4 & M4 & M5).
  pose proof (Matches_step text _ _ _ M1 W0) as [W1 _]. pose proof (Matches_step text _ _ _ M2 W1) as [W2 _].
  pose proof (Matches_step text _ _ _ M3 W2) as [W3 _].
  destruct (Matches_grp_text text _ _ _ _ M4 W3) as (s4' & g2 & w2 & Md & C4 & K4 & T2 & R4 & W4).
  apply Matches_seq_inv in Md as (sa & Ma & Mb).
  apply Matches_set_inv in Ma as (x & t0 & Rx & Sx & Rt & _).
  apply Matches_lit in M5 as [_ K5].
  assert (G2 : grp_s m 2 = w2).
  { unfold grp_s, grp. rewrite Hg. cbn [nth]. rewrite group_list_nth by lia. rewrite K5, K4. cbn. exact T2. }
  unfold consumed in C4. rewrite Rx in C4.
  destruct w2 as [|y t'].
  - exfalso. pose proof (proj1 nonnull_consumes _ _ _ Mb) as [Lb _]. rewrite Rt in Lb. rewrite <- R4 in Lb.
    cbn in C4. rewrite <- C4 in Lb. simpl in Lb. lia.
  - cbn in C4. inversion C4; subst y. exists x, t'. split; [exact G2|]. intros ->. congruence.
Qed.

Lemma replace_all_head x t old new : (forall o1 o2, old = o1 :: o2 -> o1 <> x) -> old <> [] ->
  exists t', replace_all old new (x :: t) = x :: t'.
Proof.
  intros Ho Hne. unfold replace_all. cbn [units replace_all_fuel].
  destruct old as [|o1 o2]; [congruence|]. cbn [drop_prefix]. specialize (Ho o1 o2 eq_refl).
  replace (o1 =? x) with false by (symmetry; apply N.eqb_neq; exact Ho). eauto.
Qed.

Definition macro_exn (e : exn) : Prop := e = ExIntTooLong \/ e = ExUnsupported.

Section MacrosNR.
Variable s : ienv.
Variable sr : str -> I str.
Hypothesis Hsr : forall t, nr macro_exn (sr t).

Lemma nr_param_repl params text m : match_spec re_macros_render_repl_0 text m -> nr macro_exn (param_repl sr params m).
Proof.
  intros Hm. unfold param_repl. destruct (starts_with [92] (grp0 m)); [exact Logic.I|].
  destruct (param_match_digits text m Hm) as [Hd Hne]. pose proof (py_int_digits _ Hd Hne) as Hp.
  destruct (py_int (grp_s m 2)) as [pz| |]; [|congruence|left; reflexivity].
  destruct (pz =? 0)%Z; [exact Logic.I|]. destruct (str_eqb (grp_s m 1) _); [apply Hsr|exact Logic.I].
Qed.

Lemma nr_macro_repl text subj silent simple m : (simple = true \/ match_spec re_macros_render_0 subj m) ->
  nr macro_exn (macro_repl sr s text silent simple m).
Proof.
  intros Hm. unfold macro_repl. destruct (starts_with [92] (grp0 m)); [exact Logic.I|].
  destruct (starts_with [63] (grp_s m 2)). { apply nr_bind; [destruct silent; exact Logic.I|intros; exact Logic.I]. }
  destruct (getValue s (grp_s m 1)) as [value|]. 2:{ apply nr_bind; [destruct silent; exact Logic.I|intros; exact Logic.I]. }
  destruct simple; [exact Logic.I|]. destruct Hm as [Hm|Hm]; [discriminate|].
  destruct (invocation_params subj m Hm) as (x & t & -> & Hx).
  match goal with |- context [replace_all ?o ?nw (x :: t)] =>
    destruct (replace_all_head x t o nw) as (t' & ->); [intros o1 o2 E; vm_compute in E; inversion E; subst; congruence|vm_compute; discriminate|] end.
  destruct (x =? 124). { apply nr_isub. intros m' Hm'. eapply nr_param_repl; eauto. }
  destruct ((x =? 33) || (x =? 61)). 2:{ apply nr_bind; [exact Logic.I|intros; exact Logic.I]. }
  destruct (parse_regex _ false false); [exact Logic.I| |right; reflexivity].
  apply nr_bind; [destruct silent; exact Logic.I|intros; exact Logic.I].
Qed.

Lemma nr_macros_render text silent : nr macro_exn (macros_render sr s text silent).
Proof.
  unfold macros_render. apply nr_bind; [apply nr_isub; intros m Hm; apply (nr_macro_repl text text); left; reflexivity|].
  intros r1. apply nr_bind; [apply nr_isub; intros m Hm; apply (nr_macro_repl text r1); right; exact Hm|].
  intros r2. destruct (existsb (N.eqb 2) r2); exact Logic.I.
Qed.
End MacrosNR.

(* Instances of the frame theorem: the protected part of the session in safe mode,
   the range of the safe mode, uniqueness of registered ids. *)
From Rimu Require Import Base Regex RegexParse Str Types Tables Guards State Inline Block Frame FrameBlock.
From Coq Require Import Lia.
Local Open Scope monad_scope.

(* delimited-block definition without the close pattern (which is rewritten at every block open) *)
Definition dcore (d : ddef) := (d_name d, d_openTag d, d_closeTag d, d_openRe d, d_verify d, d_delim d, d_content d, d_expand d).

Record protected_t := mkProt {
  pr_mode : Z; pr_repl : str; pr_quotes : list qdef; pr_repls : list rdef;
  pr_dblocks : list (str * str * str * cre * dverify * dfilter * cfilter * expand) }.

Definition protected (s : session) : protected_t :=
  mkProt (s_mode s) (s_repl s) (s_quotes s) (s_repls s) (map dcore (s_dblocks s)).

Lemma map_dcore_closeRe i rx l :
  map dcore ((fix go (k : nat) (l : list ddef) : list ddef :=
     match l with
     | [] => []
     | d :: t => match k with
                 | O => mkD (d_name d) (d_openTag d) (d_closeTag d) (d_openRe d) rx
                            (d_verify d) (d_delim d) (d_content d) (d_expand d) :: t
                 | S k' => d :: go k' t
                 end
     end) i l) = map dcore l.
Proof.
  revert i; induction l as [|d t IH]; intros [|i]; simpl; auto. f_equal. apply IH.
Qed.

Lemma protected_closeRe i rx s : protected (set_closeRe i rx s) = protected s.
Proof. unfold protected, set_closeRe. simpl. f_equal. apply map_dcore_closeRe. Qed.

(* In a non-zero safe mode every definition writer and the option writer is switched off
   (facts about the generated guards). *)
Lemma guards_nz m : m <> 0%Z ->
  quoteDefFilter_skip m = true /\ replacementDefFilter_skip m = true /\
  blockDefFilter_skip m = true /\ apiOptionFilter_skip m = true.
Proof.
  intros H. unfold quoteDefFilter_skip, replacementDefFilter_skip, blockDefFilter_skip,
    apiOptionFilter_skip, isSafeModeNz.
  destruct (m =? 0)%Z eqn:E; [apply Z.eqb_eq in E; contradiction|]. simpl. auto.
Qed.

Lemma guards_macros m : m <> 0%Z -> Z.land m 8 = 0%Z -> setValue_skip m = true.
Proof.
  intros H H8. unfold setValue_skip, skipMacroDefs. rewrite H8.
  destruct (m =? 0)%Z eqn:E; [apply Z.eqb_eq in E; contradiction|]. reflexivity.
Qed.

Definition prot_inv (X : protected_t) (s : session) : Prop := protected s = X.

Lemma frame_ok_protected X : pr_mode X <> 0%Z -> frame_ok (prot_inv X).
Proof.
  intros Hm.
  assert (G : forall s, prot_inv X s -> s_mode s <> 0%Z).
  { intros s H. unfold prot_inv in H. rewrite <- H in Hm. exact Hm. }
  split; unfold prot_inv; intros; try (destruct s; assumption).
  all: try (rewrite protected_closeRe; assumption).
  all: match goal with H : protected ?s = _ |- _ => pose proof (guards_nz _ (G _ H)) as (? & ? & ? & ?); congruence end.
Qed.

Definition prot_macros_inv (X : protected_t) (mc : list (str * str)) (s : session) : Prop :=
  protected s = X /\ s_macros s = mc.

Lemma frame_ok_protected_macros X mc :
  pr_mode X <> 0%Z -> Z.land (pr_mode X) 8 = 0%Z -> frame_ok (prot_macros_inv X mc).
Proof.
  intros Hm H8.
  assert (G : forall s, prot_macros_inv X mc s -> s_mode s = pr_mode X).
  { intros s [H _]. rewrite <- H. reflexivity. }
  pose proof (frame_ok_protected X Hm) as F.
  pose proof (guards_nz _ Hm) as (G1 & G2 & G3 & G4).
  pose proof (guards_macros _ Hm H8) as G5.
  split; unfold prot_macros_inv; intros s; intros;
    match goal with H : _ /\ _ |- _ => pose proof (G _ H) as Gs; destruct H as [Hp Hmc] end;
    try (rewrite Gs in *; congruence).
  - split; [apply (fo_log _ F); auto | destruct s; auto].
  - split; [apply (fo_classes _ F); auto | destruct s; auto].
  - split; [apply (fo_id _ F); auto | destruct s; auto].
  - split; [apply (fo_css _ F); auto | destruct s; auto].
  - split; [apply (fo_attrs_clear _ F); auto | destruct s; auto].
  - split; [apply (fo_attrs _ F); auto | destruct s; auto].
  - split; [apply (fo_popts _ F); auto | destruct s; auto].
  - split; [apply (fo_listids _ F); auto | destruct s; auto].
  - split; [apply (fo_ids_cons _ F); auto | destruct s; auto].
  - split; [apply (fo_closeRe _ F); auto | unfold set_closeRe; destruct s; auto].
Qed.

(* ---- range of the safe mode ---- *)
Definition mode_in_range (s : session) : Prop := (0 <= s_mode s <= 15)%Z.

Lemma out_of_range_spec n : mode_out_of_range n = false -> (0 <= n <= 15)%Z.
Proof.
  unfold mode_out_of_range. intros H. apply orb_false_iff in H as [H1 H2].
  apply Z.ltb_ge in H1. apply Z.ltb_ge in H2. lia.
Qed.

Lemma default_mode_in_range : (0 <= default_safeMode <= 15)%Z.
Proof. unfold default_safeMode. lia. Qed.

Lemma frame_ok_range : frame_ok mode_in_range.
Proof.
  split; unfold mode_in_range; intros;
    try (destruct s; assumption); try (unfold set_closeRe; destruct s; assumption).
  all: try (destruct s; simpl; apply out_of_range_spec; assumption).
  all: simpl; apply default_mode_in_range.
Qed.

(* ---- registered ids are pairwise distinct ---- *)
Definition ids_nodup (s : session) : Prop := NoDup (s_ids s).

Lemma mem_false_notin x l : mem x l = false -> ~ In x l.
Proof.
  unfold mem. intros H Hin. induction l as [|y l IH]; simpl in *; auto.
  apply orb_false_iff in H as [H1 H2]. destruct Hin as [->|Hin]; auto.
  rewrite str_eqb_refl in H1. discriminate.
Qed.

Lemma frame_ok_ids : frame_ok ids_nodup.
Proof.
  split; unfold ids_nodup; intros;
    try (destruct s; assumption); try (unfold set_closeRe; destruct s; assumption).
  all: try (destruct s; simpl in *; constructor; auto; apply mem_false_notin; assumption).
  all: simpl; constructor.
Qed.

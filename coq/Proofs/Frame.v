(* L7: invariant preservation ("frame") machinery for the block layer.
   [frame_ok P] lists, for every primitive writer of the session, the condition under
   which P survives the write; the conditions on definition/option writers mention the
   *generated* guards, so that a changed guard in the source changes the obligation.
   Main result: every block-layer function of the model, hence document.render,
   preserves every P with [frame_ok P]. *)
From Rimu Require Import Base Regex RegexParse Str Types Tables Guards State Inline Block LowerCase.
From Coq Require Import Lia.
Local Open Scope monad_scope.

Definition preserves {A} (P : session -> Prop) (m : M A) : Prop :=
  forall s a s', m s = Ok (a, s') -> P s -> P s'.

Definition preserves_if {A} (P G : session -> Prop) (m : M A) : Prop :=
  forall s a s', m s = Ok (a, s') -> P s -> G s -> P s'.

Lemma pres_ret {A} (P : session -> Prop) (a : A) : preserves P (ret a).
Proof. intros s a' s' H; inversion H; auto. Qed.

Lemma pres_raise {A} (P : session -> Prop) e : preserves P (@raise A e).
Proof. intros s a s' H; inversion H. Qed.

Lemma pres_fuel {A} (P : session -> Prop) : preserves P (@out_of_fuel A).
Proof. intros s a s' H; inversion H. Qed.

Lemma pres_get (P : session -> Prop) : preserves P get.
Proof. intros s a s' H; inversion H; subst; auto. Qed.

Lemma pres_gets {A} (P : session -> Prop) (f : session -> A) : preserves P (gets f).
Proof. intros s a s' H; inversion H; subst; auto. Qed.

Lemma pres_bind {A B} (P : session -> Prop) (m : M A) (f : A -> M B) :
  preserves P m -> (forall a, preserves P (f a)) -> preserves P (bind m f).
Proof.
  intros Hm Hf s b s' H HP. unfold bind in H.
  destruct (m s) as [[a s1]| |] eqn:E; try discriminate.
  eapply Hf; eauto.
Qed.

Lemma pres_modify (P : session -> Prop) (f : session -> session) :
  (forall s, P s -> P (f s)) -> preserves P (modify f).
Proof. intros Hf s a s' H HP; inversion H; subst; auto. Qed.

(* postcondition on the final state *)
Definition post {A} (Q : session -> Prop) (m : M A) : Prop :=
  forall s a s', m s = Ok (a, s') -> Q s'.

Lemma post_bind {A B} (Q : session -> Prop) (m : M A) (f : A -> M B) :
  (forall a, post Q (f a)) -> post Q (bind m f).
Proof.
  intros Hf s b s' H. unfold bind in H. destruct (m s) as [[a s1]| |]; try discriminate. eapply Hf; eauto.
Qed.

Lemma post_bind_pres {A B} (Q : session -> Prop) (m : M A) (f : A -> M B) :
  post Q m -> (forall a, preserves Q (f a)) -> post Q (bind m f).
Proof.
  intros Hm Hf s b s' H. unfold bind in H. destruct (m s) as [[a s1]| |] eqn:E; try discriminate.
  eapply Hf; eauto.
Qed.

Lemma post_modify (Q : session -> Prop) (g : session -> session) : (forall s, Q (g s)) -> post Q (modify g).
Proof. intros H s a s' E. inversion E; subst; auto. Qed.

Lemma post_raise {A} (Q : session -> Prop) e : post Q (@raise A e).
Proof. intros s a s' H; inversion H. Qed.

Record frame_ok (P : session -> Prop) : Prop := {
  fo_log : forall s v, P s -> P (set_log s v);
  fo_classes : forall s v, P s -> P (set_classes s v);
  fo_id : forall s v, P s -> P (set_id s v);
  fo_css : forall s v, P s -> P (set_css s v);
  fo_attrs_clear : forall s, P s -> P (set_attrs s []);
  fo_attrs : forall s v, P s -> attrs_allowed (s_mode s) = true -> P (set_attrs s v);
  fo_popts : forall s v, P s -> P (set_popts s v);
  fo_listids : forall s v, P s -> P (set_listids s v);
  fo_ids_cons : forall s id, P s -> mem id (s_ids s) = false -> lower id = id -> P (set_ids s (id :: s_ids s));
  fo_closeRe : forall s i rx, P s -> P (set_closeRe i rx s);
  fo_macros : forall s v, P s -> setValue_skip (s_mode s) = false -> P (set_macros s v);
  fo_quotes : forall s v, P s -> quoteDefFilter_skip (s_mode s) = false -> P (set_quotes s v);
  fo_repls : forall s v, P s -> replacementDefFilter_skip (s_mode s) = false -> P (set_repls s v);
  fo_dblocks : forall s v, P s -> blockDefFilter_skip (s_mode s) = false -> P (set_dblocks s v);
  fo_mode : forall s n, P s -> apiOptionFilter_skip (s_mode s) = false ->
                        mode_out_of_range n = false -> P (set_mode s n);
  fo_repl : forall s v, P s -> apiOptionFilter_skip (s_mode s) = false -> P (set_repl s v);
  fo_init : forall s, P s -> apiOptionFilter_skip (s_mode s) = false -> P (document_init s)
}.

Section Frame.
Variable P : session -> Prop.
Hypothesis HP : frame_ok P.

Lemma pres_log_msg m : preserves P (log_msg m).
Proof. apply pres_modify. intros; apply fo_log; auto. Qed.

Lemma pres_log_msgs l : preserves P (log_msgs l).
Proof.
  induction l as [|m l IH]; simpl.
  - apply pres_ret.
  - apply pres_bind; [apply pres_log_msg | intros; exact IH].
Qed.

(* a computation that only appends to the log *)
Definition log_only {A} (m : M A) : Prop :=
  forall s a s', m s = Ok (a, s') -> exists l, s' = set_log s l.

Lemma log_only_log_msgs l : log_only (log_msgs l).
Proof.
  induction l as [|m l IH]; intros s a s' H; simpl in H.
  - inversion H; subst. exists (s_log s'). destruct s'; reflexivity.
  - unfold bind, log_msg, modify in H. simpl in H.
    apply IH in H as [l' ->]. eexists. destruct s; reflexivity.
Qed.

Lemma log_only_lift {A} (f : ienv -> I A) : log_only (lift f).
Proof.
  intros s a s' H. unfold lift in H. destruct (f (ienv_of s)) as [[x msgs]| |]; try discriminate.
  unfold bind in H. destruct (log_msgs msgs s) as [[u s1]| |] eqn:E; try discriminate.
  inversion H; subst. eapply log_only_log_msgs; eauto.
Qed.

Lemma pres_log_only {A} (m : M A) : log_only m -> preserves P m.
Proof. intros H s a s' E Hs. apply H in E as [l ->]. apply fo_log; auto. Qed.

Lemma pres_lift {A} (f : ienv -> I A) : preserves P (lift f).
Proof. apply pres_log_only, log_only_lift. Qed.

Lemma lift_mode {A} (f : ienv -> I A) s a s' :
  lift f s = Ok (a, s') -> s_mode s' = s_mode s /\ (P s -> P s').
Proof.
  intros H. pose proof (log_only_lift f _ _ _ H) as [l ->]. split; [reflexivity|].
  intros; apply fo_log; auto.
Qed.

End Frame.

(* Tactic: decompose a [preserves] goal along the structure of the monadic term. *)
Create HintDb presdb.
Ltac pres_step HP :=
  first
    [ solve [auto with presdb nocore]
    | apply pres_ret | apply pres_raise | apply pres_fuel | apply pres_get | apply pres_gets
    | apply (pres_lift _ HP) | apply (pres_log_msg _ HP) | apply (pres_log_msgs _ HP)
    | apply pres_bind; [| intro]
    | match goal with
      | |- preserves _ (if ?b then _ else _) => destruct b
      | |- preserves _ (match ?x with _ => _ end) => destruct x
      | |- preserves _ (let '(_, _) := ?x in _) => destruct x
      end ].

Ltac pres HP := repeat (pres_step HP).

(* Discharge [P (setter ... s ...)] goals with the unconditional fields of frame_ok. *)
Ltac fo HP :=
  repeat first
    [ assumption
    | apply (fo_log _ HP) | apply (fo_classes _ HP) | apply (fo_id _ HP) | apply (fo_css _ HP)
    | apply (fo_attrs_clear _ HP) | apply (fo_popts _ HP) | apply (fo_listids _ HP)
    | apply (fo_closeRe _ HP) ].

Ltac pres_mod HP := apply pres_modify; let s := fresh "s" in let Hs := fresh "Hs" in intros s Hs; fo HP.

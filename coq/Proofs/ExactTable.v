(* C08: every generated pattern is within the class for which the matcher is proved exact (recomputed on every run). *)
From Rimu Require Import Base Unicode Regex RegexSem RegexAnalysis Str MatchLemmas MatchExact.
From Coq Require Import Lia.
From Rimu Require Import Types Tables Block TableFacts.

(* every generated pattern is covered (three of them have an optional part whose body can itself match the empty string:
   admitted by [opt1]) *)
Definition exact_exceptions : list str := [].

Theorem generated_patterns_exact :
  forallb (fun nr => wf_exact (re_ast (snd nr)) || mem (fst nr) exact_exceptions) all_regexes = true.
Proof. vm_compute. reflexivity. Qed.

(* C07_plain: inline text none of whose characters can start a match of any replacement,
   quote or placeholder pattern renders to exactly its escape.  The "plain" alphabet is
   computed from the generated tables by the verified first-set analysis. *)
From Rimu Require Import Base Unicode Regex RegexAnalysis RegexParse Str Types Tables Guards State Inline.
From Coq Require Import Lia.
Local Open Scope monad_scope.

Definition defaults (s : ienv) : Prop :=
  en_repls s = replacements_default /\ en_quotes s = quotes_default.

Definition span_regexes : list cre :=
  map r_re replacements_default ++
  [quotesRe quotes_default; unescapeRe quotes_default; re_spans_postReplacements_0].

(* the plain alphabet: letters, digits, blank, newline, and the punctuation that is part of no markup;
   whether it is plain for the *current* tables is decided by computation below *)
Definition plain_alphabet : list char :=
  $"abcdefghijklmnopqrstuvwxyzABCDEFGHIJKLMNOPQRSTUVWXYZ0123456789 .,;!?()'-+=/|#>]{}^%@$" ++ [10; 34; 233; 223; 26085].

Lemma plain_alphabet_ok : forallb (fun r => negb (okA plain_alphabet (re_ast r))) span_regexes = true.
Proof. vm_compute. reflexivity. Qed.

Definition plain_text (t : str) : Prop := over plain_alphabet t.

Lemma no_match_spec r : In r span_regexes -> okA plain_alphabet (re_ast r) = false.
Proof.
  intros Hr. pose proof plain_alphabet_ok as H. rewrite forallb_forall in H. apply H in Hr.
  apply negb_true_iff in Hr. exact Hr.
Qed.

Lemma no_match r t : In r span_regexes -> plain_text t -> re_search r t = None.
Proof. intros Hr Ht. apply (re_search_none_over plain_alphabet); auto using no_match_spec. Qed.

Section Plain.
Variable s : ienv.
Variable sr : str -> I str.

Lemma fragReplacement_plain n d t :
  In (r_re d) span_regexes -> plain_text t -> fragReplacement s sr (S n) d t = iret [undone t].
Proof. intros Hd Ht. cbn [fragReplacement]. rewrite no_match; auto. Qed.

Lemma fragReplacements_plain n t : forall defs,
  (forall d, In d defs -> In (r_re d) span_regexes) -> plain_text t ->
  fragReplacements s sr (S n) defs [undone t] = iret [undone t].
Proof.
  induction defs as [|d ds IH]; intros Hds Ht; cbn [fragReplacements]; [reflexivity|].
  cbn [iconcat_map undone f_done f_text].
  rewrite fragReplacement_plain; auto; [|apply Hds; left; reflexivity].
  cbn [ibind iret app]. rewrite IH; auto. intros d' Hd'. apply Hds. right. exact Hd'.
Qed.
End Plain.

Lemma default_repls_in : forall d, In d replacements_default -> In (r_re d) span_regexes.
Proof. intros d Hd. unfold span_regexes. apply in_or_app. left. apply in_map. exact Hd. Qed.

Lemma quotesRe_in : In (quotesRe quotes_default) span_regexes.
Proof. unfold span_regexes. apply in_or_app. right. left. reflexivity. Qed.
Lemma unescapeRe_in : In (unescapeRe quotes_default) span_regexes.
Proof. unfold span_regexes. apply in_or_app. right. right. left. reflexivity. Qed.
Lemma postRe_in : In re_spans_postReplacements_0 span_regexes.
Proof. unfold span_regexes. apply in_or_app. right. right. right. left. reflexivity. Qed.

Lemma fragQuote_plain n t : plain_text t ->
  fragQuote (S (S n)) quotes_default (quotesRe quotes_default) t = Ok [undone t].
Proof.
  intros Ht. cbn [fragQuote find_quote]. unfold re_search_pos.
  assert (E : skip_to 0 0 None t = (0, None, t)) by (destruct t; reflexivity).
  rewrite E. fold (re_search (quotesRe quotes_default) t). rewrite no_match; auto using quotesRe_in.
Qed.

(* characters of escaped text: those of the text, or of the three entities *)
Lemma in_escape x t : In x (escape t) -> In x t \/ In x $"&amp;gtl".
Proof.
  unfold escape. induction t as [|c t IH]; simpl; [intros []|].
  intros H. apply in_app_or in H as [H|H]; [|destruct (IH H); auto].
  unfold escape_char in H.
  destruct (c =? 38); [right; cbv in H |- *; intuition|].
  destruct (c =? 62); [right; cbv in H |- *; intuition|].
  destruct (c =? 60); [right; cbv in H |- *; intuition|].
  destruct H as [->|[]]. left. left. reflexivity.
Qed.

(* the placeholder pattern cannot match inside escaped plain text *)
Definition escaped_alphabet : list char := plain_alphabet ++ $"&amp;gtl".
Lemma escaped_alphabet_ok : okA escaped_alphabet (re_ast re_spans_postReplacements_0) = false.
Proof. vm_compute. reflexivity. Qed.

Theorem spans_render_plain n s t :
  defaults s -> plain_text t -> spans_render (S (S (S n))) s t = iret (escape t).
Proof.
  intros [Hr Hq] Ht. cbn [spans_render]. unfold spans_body.
  rewrite Hr, Hq.
  rewrite fragReplacements_plain; auto using default_repls_in.
  cbn [ibind iret filter undone f_done app].
  unfold frag_placeholder_text. cbn [flat_map undone f_done f_text]. rewrite app_nil_r.
  unfold fragQuotes. cbn [res_concat_map undone f_done f_text].
  rewrite fragQuote_plain; auto.
  cbn [app map undone f_done f_text f_verb of_res iret ibind flat_map].
  unfold quotes_unescape.
  rewrite (re_sub_none_over plain_alphabet); [|apply no_match_spec, unescapeRe_in|exact Ht].
  rewrite app_nil_r.
  rewrite (re_scan_none_over escaped_alphabet); [|exact escaped_alphabet_ok|].
  - cbn [postReplacements of_res iret ibind app]. reflexivity.
  - intros x Hx. unfold escaped_alphabet. apply in_or_app. apply in_escape in Hx as [Hx|Hx]; auto.
Qed.

(* ---- macro expansion of text without an opening brace is the identity ---- *)
Definition macro_regexes : list cre := [re_macros_render_0; re_macros_render_1].

Lemma macro_regexes_nonnull : forallb (fun r => negb (nullable (re_ast r))) macro_regexes = true.
Proof. vm_compute. reflexivity. Qed.

Definition no_macro_start (x : char) : bool := forallb (fun r => negb (first (re_ast r) x)) macro_regexes.

Theorem macros_render_identity sr s t silent :
  (forall x, In x t -> no_macro_start x = true) -> negb (existsb (N.eqb 2) t) = true ->
  macros_render sr s t silent = iret t.
Proof.
  intros Ht H2. unfold macros_render.
  assert (N1 : nullable (re_ast re_macros_render_1) = false) by (vm_compute; reflexivity).
  assert (N0 : nullable (re_ast re_macros_render_0) = false) by (vm_compute; reflexivity).
  assert (F : forall r x, In r macro_regexes -> In x t -> first (re_ast r) x = false).
  { intros r x Hr Hx. apply Ht in Hx. unfold no_macro_start in Hx. rewrite forallb_forall in Hx.
    apply Hx in Hr. apply negb_true_iff in Hr. exact Hr. }
  unfold isub. rewrite re_scan_none; auto; [|intros x Hx; apply F; auto; right; left; reflexivity].
  cbn [imapM ibind iret concat app].
  rewrite re_scan_none; auto; [|intros x Hx; apply F; auto; left; reflexivity].
  cbn [imapM ibind iret concat app].
  apply negb_true_iff in H2. rewrite H2. reflexivity.
Qed.

Fixpoint seqN (lo : N) (n : nat) : list N := match n with O => [] | S k => lo :: seqN (lo + 1) k end.

(* the only characters that can start a macro invocation are the backslash and the opening brace *)
Example macro_start_chars :
  forallb (fun x => no_macro_start x || (x =? 92) || (x =? 123)) (seqN 0 256) = true /\
  no_macro_start 92 = false /\ no_macro_start 123 = false.
Proof. vm_compute. repeat split. Qed.

(* C01: the two content filters of delimitedblocks.py that assert on a regular-expression search.  Both searches succeed
   whenever the filter is reached: indentedContentFilter looks for a non-space character, and the opening pattern of the block
   it belongs to has a group 1 that must contain one; macroDefContentFilter re-reads the macro name from the opening delimiter
   with a pattern made of the same two pieces as the opening pattern itself.  The second argument uses the completeness of the
   matcher (MatchExact.v). *)
From Rimu Require Import Base Unicode Regex RegexSem RegexAnalysis Str Types Tables MatchLemmas MatchExact.
From Coq Require Import Lia.

(* ---- a pattern every match of which consumes a non-space character ---- *)
Definition nonspace (x : char) : bool := set_match false [ICat CatSpace true] x.

Definition is_nonspace_set (neg : bool) (items : list citem) : bool :=
  match neg, items with
  | false, [ICat CatSpace true] => true
  | _, _ => false
  end.

Fixpoint must_ns (r : regex) : bool :=
  match r with
  | RSet neg items => is_nonspace_set neg items
  | RSeq a b => must_ns a || must_ns b
  | RAlt a b => must_ns a && must_ns b
  | RGrp _ b => must_ns b
  | RRep _ mn _ b => (0 <? mn) && must_ns b
  | _ => false
  end.

Lemma is_nonspace_set_spec neg items x : is_nonspace_set neg items = true -> set_match neg items x = true -> nonspace x = true.
Proof.
  unfold is_nonspace_set. destruct neg; [discriminate|]. destruct items as [|it rest]; [discriminate|].
  destruct it as [lo hi|c n]; [discriminate|]. destruct c; try discriminate. destruct n; try discriminate.
  destruct rest; [|discriminate]. intros _ H. exact H.
Qed.

Lemma Matches_consumed_ex :
  (forall r s s', Matches r s s' -> exists w, consumed s s' w) /\
  (forall b s k s', Iter b s k s' -> exists w, consumed s s' w).
Proof.
  apply Matches_Iter_ind; intros; unfold consumed in *; cbn [st_rest] in *;
    try (exists []; reflexivity); try (exists [x]; reflexivity); auto.
  - destruct H as (w1 & E1). destruct H0 as (w2 & E2). exists (w1 ++ w2). rewrite E1, E2, app_assoc. reflexivity.
  - exists (cap_text g). eapply strip_prefix_app; eauto.
  - destruct H as (w1 & E1). destruct H0 as (w2 & E2). exists (w1 ++ w2). rewrite E1, E2, app_assoc. reflexivity.
Qed.

Lemma must_ns_sound :
  (forall r s s', Matches r s s' -> must_ns r = true -> exists w x, consumed s s' w /\ In x w /\ nonspace x = true) /\
  (forall b s k s', Iter b s k s' -> must_ns b = true -> (0 < k)%nat -> exists w x, consumed s s' w /\ In x w /\ nonspace x = true).
Proof.
  apply Matches_Iter_ind; intros; cbn [must_ns] in *; try discriminate.
  - exists [x], x. split; [reflexivity|]. split; [left; reflexivity|]. eapply is_nonspace_set_spec; eauto.
  - (* seq *)
    destruct (proj1 Matches_consumed_ex _ _ _ m) as (w1 & C1). destruct (proj1 Matches_consumed_ex _ _ _ m0) as (w2 & C2).
    unfold consumed in *. apply orb_prop in H1 as [Ha|Hb].
    + destruct (H Ha) as (w & x & C & Hx & Hn).
      assert (w = w1) by (rewrite C1 in C; apply app_inv_tail in C; auto). subst w.
      exists (w1 ++ w2), x. split; [rewrite C1, C2, app_assoc; reflexivity|]. split; [|exact Hn].
      apply in_or_app. left. exact Hx.
    + destruct (H0 Hb) as (w & x & C & Hx & Hn). exists (w1 ++ w2), x.
      split; [rewrite C1, C2, app_assoc; reflexivity|]. split; [|exact Hn].
      assert (w = w2). { rewrite C2 in C. apply app_inv_tail in C. auto. }
      subst w. apply in_or_app. right. exact Hx.
  - apply andb_prop in H0 as [Ha _]. auto.
  - apply andb_prop in H0 as [_ Hb]. auto.
  - apply andb_prop in H0 as [Hmn Hb]. apply N.ltb_lt in Hmn. apply H; [exact Hb|lia].
  - (* group *) destruct (H H0) as (w & x & C & Hx & Hn). exists w, x. split; [exact C|auto].
  - lia.
  - (* one more iteration *)
    destruct (H H1) as (w & x & C & Hx & Hn). destruct (proj2 Matches_consumed_ex _ _ _ _ i) as (w2 & C2).
    unfold consumed in *. exists (w ++ w2), x. split; [rewrite C, C2, app_assoc; reflexivity|]. split; [apply in_or_app; left; exact Hx|exact Hn].
Qed.

(* group k takes part in every match and its text holds a non-space character *)
Fixpoint gmust (k : nat) (r : regex) : bool :=
  match r with
  | RGrp j b => Nat.eqb j k && must_ns b
  | RSeq a b => gmust k b || (gmust k a && negb (mentions k b))
  | _ => false
  end.

Lemma gmust_sound subj k : forall r s s', Matches r s s' -> wfst subj s -> gmust k r = true ->
  exists g x, cap_get k (st_c s') = Some g /\ In x (cap_text g) /\ nonspace x = true.
Proof.
  induction r; intros s s' M W H; cbn [gmust] in H; try discriminate.
  - apply Matches_seq_inv in M as (s2 & M1 & M2). apply orb_prop in H as [H|H].
    + destruct (Matches_step subj _ _ _ M1 W) as [W2 _]. eapply IHr2; eauto.
    + apply andb_prop in H as [Ha Hb]. apply negb_true_iff in Hb.
      destruct (IHr1 _ _ M1 W Ha) as (g & x & Hg & Hx & Hn). exists g, x.
      rewrite (proj1 (caps_other k) _ _ _ M2 Hb). auto.
  - apply andb_prop in H as [Hj Hb]. apply PeanoNat.Nat.eqb_eq in Hj. subst n.
    destruct (Matches_grp_text subj _ _ _ _ M W) as (s1 & g & w & Mb & C & Kc & Tg & Rs & _).
    destruct (proj1 must_ns_sound _ _ _ Mb Hb) as (w' & x & C' & Hx & Hn).
    assert (w' = w). { unfold consumed in *. rewrite Rs in C. rewrite C in C'. apply app_inv_tail in C'. auto. }
    subst w'. exists g, x. rewrite Kc. cbn [cap_get]. rewrite PeanoNat.Nat.eqb_refl. rewrite Tg. auto.
Qed.

Lemma gmust_match r text m : match_spec r text m -> gmust 1 (re_ast r) = true -> (0 < re_groups r)%nat ->
  exists g x, grp m 1 = Some g /\ In x g /\ nonspace x = true.
Proof.
  intros [pre w post p fin Hs Hst Hen Hg Mrun Hrest Hwf] H Hk.
  assert (W0 : wfst text (mkSt (lenN pre) p (w ++ post) [])). { split; [exists pre; auto|intros n g []]. }
  destruct (gmust_sound text 1 _ _ _ Mrun W0 H) as (g & x & Hc & Hx & Hn).
  exists (cap_text g), x. unfold grp. rewrite Hg. cbn [nth]. rewrite group_list_nth by exact Hk. rewrite Hc. auto.
Qed.

(* the search for a non-space character *)
Lemma nonspace_search_complete text x : In x text -> nonspace x = true ->
  re_search re_delimitedblocks_indentedContentFilter_0 text <> None.
Proof.
  intros Hin Hn. apply in_split in Hin as (pre & post & ->).
  eapply (re_search_complete _ pre (x :: post)); [reflexivity|].
  assert (Sh : exists neg items, re_ast re_delimitedblocks_indentedContentFilter_0 = RSet neg items /\ is_nonspace_set neg items = true)
    by (eexists _, _; split; reflexivity).
  destruct Sh as (neg & items & -> & Hs). cbn [mx st_rest]. exists x, post. split; [reflexivity|]. split; [|reflexivity].
  unfold is_nonspace_set in Hs. destruct neg; [discriminate|]. destruct items as [|it rest]; [discriminate|].
  destruct it as [lo hi|c n]; [discriminate|]. destruct c; try discriminate. destruct n; try discriminate.
  destruct rest; [|discriminate]. exact Hn.
Qed.

Lemma In_join_head (sep g : str) (l : list str) x : In x g -> In x (join sep (g :: l)).
Proof. intros H. cbn [join]. destruct l; [exact H|]. apply in_or_app. left. exact H. Qed.

(* ---- decidable equality of patterns ---- *)
Definition cat_eqb (a b : cat) : bool :=
  match a, b with CatSpace, CatSpace | CatWord, CatWord | CatDigit, CatDigit => true | _, _ => false end.
Definition citem_eqb (a b : citem) : bool :=
  match a, b with
  | IRange l h, IRange l' h' => (l =? l') && (h =? h')
  | ICat c n, ICat c' n' => cat_eqb c c' && Bool.eqb n n'
  | _, _ => false
  end.
Fixpoint items_eqb (a b : list citem) : bool :=
  match a, b with
  | [], [] => true
  | x :: a', y :: b' => citem_eqb x y && items_eqb a' b'
  | _, _ => false
  end.
Definition optN_eqb (a b : option N) : bool :=
  match a, b with None, None => true | Some x, Some y => x =? y | _, _ => false end.
Fixpoint regex_eqb (a b : regex) : bool :=
  match a, b with
  | REps, REps => true
  | RSet n i, RSet n' i' => Bool.eqb n n' && items_eqb i i'
  | RAny d, RAny d' => Bool.eqb d d'
  | RSeq x y, RSeq x' y' => regex_eqb x x' && regex_eqb y y'
  | RAlt x y, RAlt x' y' => regex_eqb x x' && regex_eqb y y'
  | RRep g mn mxx x, RRep g' mn' mxx' x' => Bool.eqb g g' && (mn =? mn') && optN_eqb mxx mxx' && regex_eqb x x'
  | RGrp n x, RGrp n' x' => Nat.eqb n n' && regex_eqb x x'
  | RLook n x, RLook n' x' => Bool.eqb n n' && regex_eqb x x'
  | RBref n, RBref n' => Nat.eqb n n'
  | RBol m, RBol m' => Bool.eqb m m'
  | REol m, REol m' => Bool.eqb m m'
  | RWordB m, RWordB m' => Bool.eqb m m'
  | _, _ => false
  end.

Lemma citem_eqb_eq a b : citem_eqb a b = true -> a = b.
Proof.
  destruct a as [l h|c n], b as [l' h'|c' n']; cbn; try discriminate; intros H; apply andb_prop in H as [H1 H2].
  - apply N.eqb_eq in H1, H2. congruence.
  - apply Bool.eqb_prop in H2. destruct c, c'; try discriminate; congruence.
Qed.

Lemma items_eqb_eq : forall a b, items_eqb a b = true -> a = b.
Proof.
  induction a as [|x a IH]; destruct b as [|y b]; cbn; try discriminate; [reflexivity|].
  intros H. apply andb_prop in H as [H1 H2]. apply citem_eqb_eq in H1. apply IH in H2. congruence.
Qed.

Lemma optN_eqb_eq a b : optN_eqb a b = true -> a = b.
Proof. destruct a, b; cbn; try discriminate; [|reflexivity]. intros H. apply N.eqb_eq in H. congruence. Qed.

Lemma regex_eqb_eq : forall a b, regex_eqb a b = true -> a = b.
Proof.
  induction a; destruct b; cbn [regex_eqb]; try discriminate; intros H;
    repeat match goal with H : _ && _ = true |- _ => apply andb_prop in H as [? ?] end;
    repeat match goal with
           | H : Bool.eqb _ _ = true |- _ => apply Bool.eqb_prop in H
           | H : (_ =? _) = true |- _ => apply N.eqb_eq in H
           | H : Nat.eqb _ _ = true |- _ => apply PeanoNat.Nat.eqb_eq in H
           | H : items_eqb _ _ = true |- _ => apply items_eqb_eq in H
           | H : optN_eqb _ _ = true |- _ => apply optN_eqb_eq in H
           | IH : forall b, regex_eqb ?a b = true -> ?a = b, H : regex_eqb ?a _ = true |- _ => apply IH in H
           end; subst; reflexivity.
Qed.

(* ---- patterns whose matching depends only on the characters ahead ---- *)
Fixpoint pure (r : regex) : bool :=
  match r with
  | REps | RSet _ _ | RAny _ => true
  | RSeq a b | RAlt a b => pure a && pure b
  | RRep _ _ _ b => pure b
  | _ => false
  end.

Lemma last_of_app w1 : forall p w2, last_of p (w1 ++ w2) = last_of (last_of p w1) w2.
Proof. induction w1 as [|x w1 IH]; intros p w2; [reflexivity|]. cbn. apply IH. Qed.

Definition transports (R : mst -> mst -> Prop) (s s' : mst) : Prop :=
  exists wc, st_rest s = wc ++ st_rest s' /\ st_p s' = last_of (st_p s) wc /\
    (st_i s' = st_i s + lenN wc /\ st_c s' = st_c s) /\
    forall i2 c2 z2, R (mkSt i2 (st_p s) (wc ++ z2) c2) (mkSt (i2 + lenN wc) (last_of (st_p s) wc) z2 c2).

Lemma iter_transport (R : mst -> mst -> Prop) : (forall s s', R s s' -> transports R s s') ->
  forall n s s', iterR R n s s' -> transports (iterR R n) s s'.
Proof.
  intros HR. induction n as [|n IH]; intros s s' H; cbn [iterR] in H.
  - subst s'. exists []. split; [reflexivity|]. split; [reflexivity|]. split; [cbn; split; [lia|reflexivity]|].
    intros i2 c2 z2. cbn. rewrite N.add_0_r. reflexivity.
  - destruct H as (s1 & H1 & H2). apply HR in H1 as (w1 & E1 & P1 & [I1 C1] & T1). apply IH in H2 as (w2 & E2 & P2 & [I2 C2] & T2).
    exists (w1 ++ w2). split; [rewrite E1, E2, app_assoc; reflexivity|].
    split; [rewrite P2, P1, last_of_app; reflexivity|].
    split; [split; [rewrite I2, I1, lenN_app; lia|congruence]|]. intros i2 c2 z2. cbn [iterR].
    exists (mkSt (i2 + lenN w1) (last_of (st_p s) w1) (w2 ++ z2) c2). split.
    + rewrite <- app_assoc. apply T1.
    + specialize (T2 (i2 + lenN w1) c2 z2). rewrite P1 in T2. rewrite last_of_app, lenN_app, N.add_assoc. exact T2.
Qed.

Lemma pure_transport : forall r, pure r = true -> forall s s', mx r s s' -> transports (mx r) s s'.
Proof.
  induction r; intros Hp s s' H; cbn [pure] in Hp; try discriminate; cbn [MatchExact.mx] in H.
  - subst s'. exists []. split; [reflexivity|]. split; [reflexivity|]. split; [cbn; split; [lia|reflexivity]|].
    intros i2 c2 z2. cbn. rewrite N.add_0_r. reflexivity.
  - destruct H as (x & t & Hr & Hm & ->). exists [x]. cbn. split; [exact Hr|]. split; [reflexivity|]. split; [split; reflexivity|].
    intros i2 c2 z2. exists x, z2. cbn. auto.
  - destruct H as (x & t & Hr & Hm & ->). exists [x]. cbn. split; [exact Hr|]. split; [reflexivity|]. split; [split; reflexivity|].
    intros i2 c2 z2. exists x, z2. cbn. auto.
  - apply andb_prop in Hp as [Hp1 Hp2]. destruct H as (s2 & H1 & H2).
    apply (IHr1 Hp1) in H1 as (w1 & E1 & P1 & [I1 C1] & T1). apply (IHr2 Hp2) in H2 as (w2 & E2 & P2 & [I2 C2] & T2).
    exists (w1 ++ w2). split; [rewrite E1, E2, app_assoc; reflexivity|].
    split; [rewrite P2, P1, last_of_app; reflexivity|].
    split; [split; [rewrite I2, I1, lenN_app; lia|congruence]|]. intros i2 c2 z2. cbn [MatchExact.mx].
    exists (mkSt (i2 + lenN w1) (last_of (st_p s) w1) (w2 ++ z2) c2). split.
    + rewrite <- app_assoc. apply T1.
    + specialize (T2 (i2 + lenN w1) c2 z2). rewrite P1 in T2. rewrite last_of_app, lenN_app, N.add_assoc. exact T2.
  - apply andb_prop in Hp as [Hp1 Hp2]. destruct H as [H|H].
    + apply (IHr1 Hp1) in H as (w & E & P & IC & T). exists w. split; [exact E|]. split; [exact P|]. split; [exact IC|]. intros. left. apply T.
    + apply (IHr2 Hp2) in H as (w & E & P & IC & T). exists w. split; [exact E|]. split; [exact P|]. split; [exact IC|]. intros. right. apply T.
  - destruct H as (n & Hi & Hmn & Hmx). apply (iter_transport _ (IHr Hp)) in Hi as (w & E & P & IC & T).
    exists w. split; [exact E|]. split; [exact P|]. split; [exact IC|]. intros i2 c2 z2. cbn [MatchExact.mx]. exists n. split; [apply T|]. split; assumption.
Qed.

(* ---- the macro-definition opening pattern and the pattern that re-reads the name from it ---- *)
Definition mdef_open_of (A B rest : regex) : regex :=
  RSeq (RBol false) (RSeq (RRep true 0 (Some 1) (RLit 92)) (RSeq (RLit 123) (RSeq A (RSeq B (RSeq (RLit 125) rest))))).
Definition mdef_filter_of (A B : regex) : regex :=
  RSeq (RBol false) (RSeq (RLit 123) (RSeq (RGrp 1 (RSeq A B)) (RLit 125))).

Definition mdef_okb (r : cre) : bool :=
  match re_ast r with
  | RSeq _ (RSeq _ (RSeq _ (RSeq A (RSeq B (RSeq _ rest))))) =>
      regex_eqb (re_ast r) (mdef_open_of A B rest) &&
      regex_eqb (re_ast re_delimitedblocks_macroDefContentFilter_0) (mdef_filter_of A B) &&
      pure A && pure B && wf_exact (re_ast r)
  | _ => false
  end.

Theorem mdef_filter_found r cur m c0 t : mdef_okb r = true -> re_search r cur = Some m ->
  grp0 m = c0 :: t -> c0 <> 92 -> re_search re_delimitedblocks_macroDefContentFilter_0 (grp0 m) <> None.
Proof.
  unfold mdef_okb. intros Hok Hs Hg0 Hc0.
  destruct (re_ast r) as [| | |r1 [| | |r2 [| | |r3 [| | |A [| | |B [| | |r6 rest| | | | | | | |]| | | | | | | |]| | | | | | | |]| | | | | | | |]| | | | | | | |]| | | | | | | |] eqn:Er;
    try discriminate.
  repeat match goal with H : _ && _ = true |- _ => apply andb_prop in H as [H ?] end.
  apply regex_eqb_eq in Hok. rename H2 into Hfil. apply regex_eqb_eq in Hfil. rename H1 into HpA. rename H0 into HpB. rename H into Hwf.
  assert (Hwf' : wf_exact (re_ast r) = true) by (rewrite Er; exact Hwf).
  destruct (re_search_sound r cur m Hwf' Hs) as (pre & rest0 & s' & Hcur & Hst & Hmx & Hen & Hgr).
  set (s0 := mkSt (lenN pre) (last_of None pre) rest0 []) in *.
  assert (W0 : wfst cur s0). { split; [exists pre; auto|intros n g []]. }
  destruct (Matches_step cur _ _ _ (mx_Matches _ _ _ Hmx) W0) as [_ (wc & Cwc & Iwc)].
  assert (Hw : grp0 m = wc).
  { unfold grp0, grp_s, grp. rewrite Hgr. cbn [nth]. rewrite Iwc. cbn [st_i s0].
    replace (lenN pre + lenN wc - lenN pre) with (lenN wc) by lia. unfold consumed in Cwc. cbn [st_rest s0] in Cwc.
    rewrite Cwc. apply takeN_app_exact. }
  rewrite Er, Hok in Hmx. unfold mdef_open_of in Hmx. cbn [mx] in Hmx.
  destruct Hmx as (s1 & [-> _] & s2 & (n & Hbs & _ & Hn1) & s3 & (x & t3 & Hr2 & Hx & ->) & s4 & HA & s5 & HB & s6 & (y & t6 & Hr5 & Hy & ->) & Hrest).
  (* no leading backslash *)
  assert (s2 = s0).
  { destruct n as [|n]; [exact Hbs|]. exfalso. cbn [iterR mx] in Hbs. destruct Hbs as (sx & (z & tz & Hrz & Hz & _) & _).
    apply lit_match in Hz. subst z. cbn [st_rest s0] in Hrz. unfold consumed in Cwc. cbn [st_rest s0] in Cwc.
    rewrite Hw in Hg0. subst wc. rewrite Hrz in Cwc. cbn in Cwc. inversion Cwc. congruence. }
  subst s2. subst s0. cbn [st_rest st_p st_i st_c] in *.
  apply (pure_transport _ HpA) in HA as (wa & Ea & Pa & _ & Ta). apply (pure_transport _ HpB) in HB as (wb & Eb & Pb & _ & Tb).
  destruct (proj1 Matches_consumed_ex _ _ _ (mx_Matches _ _ _ Hrest)) as (wr & Cr). unfold consumed in Cr, Cwc.
  cbn [st_rest st_p] in *.
  assert (Ewc : wc = x :: wa ++ wb ++ y :: wr).
  { assert (E : (x :: wa ++ wb ++ y :: wr) ++ st_rest s' = wc ++ st_rest s').
    { rewrite <- Cwc, Hr2, Ea, Eb, Hr5, Cr. cbn [app]. repeat (rewrite <- app_assoc; cbn [app]). reflexivity. }
    apply app_inv_tail in E. auto. }
  rewrite Hw, Ewc.
  apply (re_search_complete _ [] (x :: wa ++ wb ++ y :: wr)
           (mkSt (0 + 1 + lenN wa + lenN wb + 1) (Some y) wr
                 [(1%nat, {| c_s := 0 + 1; c_e := 0 + 1 + lenN wa + lenN wb; c_txt := wa ++ wb ++ y :: wr |})])).
  - rewrite Hfil. cbn [wf_exact mdef_filter_of]. rewrite Er in Hwf'. cbn [wf_exact] in Hwf'.
    repeat match goal with H : _ && _ = true |- _ => apply andb_prop in H as [? ?] end.
    repeat (apply andb_true_intro; split); try reflexivity; assumption.
  - rewrite Hfil. unfold mdef_filter_of. cbn [mx lenN last_of].
    exists (mkSt 0 None (x :: wa ++ wb ++ y :: wr) []). split; [split; reflexivity|].
    exists (mkSt (0 + 1) (Some x) (wa ++ wb ++ y :: wr) []). split; [exists x, (wa ++ wb ++ y :: wr); cbn; auto|].
    exists (mkSt (0 + 1 + lenN wa + lenN wb) (last_of (last_of (Some x) wa) wb) (y :: wr)
                 [(1%nat, {| c_s := 0 + 1; c_e := 0 + 1 + lenN wa + lenN wb; c_txt := wa ++ wb ++ y :: wr |})]). split.
    + exists (mkSt (0 + 1 + lenN wa + lenN wb) (last_of (last_of (Some x) wa) wb) (y :: wr) []). split; [|reflexivity].
      exists (mkSt (0 + 1 + lenN wa) (last_of (Some x) wa) (wb ++ y :: wr) []). split; [apply Ta|].
      rewrite Pa in Tb. apply Tb.
    + exists y, wr. cbn. auto.
Qed.

(* C01: the two content filters of delimitedblocks.py that assert on a regular-expression search.  Both searches succeed
   whenever the filter is reached: indentedContentFilter looks for a non-space character, and the opening pattern of the block
   it belongs to has a group 1 that must contain one; macroDefContentFilter re-reads the macro name from the opening delimiter
   with a pattern made of the same two pieces as the opening pattern itself.  The second argument uses the completeness of the
   matcher (MatchExact.v). *)
From Rimu Require Import Base Unicode Regex RegexSem RegexAnalysis Str Types Tables MatchLemmas MatchExact ScanLemmas.
From Coq Require Import Lia.

Lemma nonspace_search_complete text x : In x text -> nonspace x = true ->
  re_search re_delimitedblocks_indentedContentFilter_0 text <> None.
Proof.
  intros Hin Hn. apply in_split in Hin as (pre & post & ->).
  eapply (re_search_complete _ pre (x :: post)); [reflexivity|].
  assert (Sh : exists neg items, re_ast re_delimitedblocks_indentedContentFilter_0 = RSet neg items /\ is_nonspace_set neg items = true)
    by (eexists _, _; split; reflexivity).
  destruct Sh as (neg & items & -> & Hs). cbn [mx st_rest]. exists x, post. split; [reflexivity|]. split; [|reflexivity].
  unfold is_nonspace_set in Hs. destruct neg; [discriminate|]. destruct items as [|it rest]; [discriminate|].
  destruct it as [lo hi|c n]; [discriminate|]. destruct c; try discriminate. destruct n; try discriminate.
  destruct rest; [|discriminate]. exact Hn.
Qed.

(* ---- the macro-definition opening pattern and the pattern that re-reads the name from it ---- *)
Definition mdef_open_of (A B rest : regex) : regex :=
  RSeq (RBol false) (RSeq (RRep true 0 (Some 1) (RLit 92)) (RSeq (RLit 123) (RSeq A (RSeq B (RSeq (RLit 125) rest))))).
Definition mdef_filter_of (A B : regex) : regex :=
  RSeq (RBol false) (RSeq (RLit 123) (RSeq (RGrp 1 (RSeq A B)) (RLit 125))).

Definition mdef_okb (r : cre) : bool :=
  match re_ast r with
  | RSeq _ (RSeq _ (RSeq _ (RSeq A (RSeq B (RSeq _ rest))))) =>
      regex_eqb (re_ast r) (mdef_open_of A B rest) &&
      regex_eqb (re_ast re_delimitedblocks_macroDefContentFilter_0) (mdef_filter_of A B) &&
      pure A && pure B && wf_exact (re_ast r)
  | _ => false
  end.

Theorem mdef_filter_found r cur m c0 t : mdef_okb r = true -> re_search r cur = Some m ->
  grp0 m = c0 :: t -> c0 <> 92 -> re_search re_delimitedblocks_macroDefContentFilter_0 (grp0 m) <> None.
Proof.
  unfold mdef_okb. intros Hok Hs Hg0 Hc0.
  destruct (re_ast r) as [| | |r1 [| | |r2 [| | |r3 [| | |A [| | |B [| | |r6 rest| | | | | | | |]| | | | | | | |]| | | | | | | |]| | | | | | | |]| | | | | | | |]| | | | | | | |] eqn:Er;
    try discriminate.
  repeat match goal with H : _ && _ = true |- _ => apply andb_prop in H as [H ?] end.
  apply regex_eqb_eq in Hok. rename H2 into Hfil. apply regex_eqb_eq in Hfil. rename H1 into HpA. rename H0 into HpB. rename H into Hwf.
  assert (Hwf' : wf_exact (re_ast r) = true) by (rewrite Er; exact Hwf).
  destruct (re_search_sound r cur m Hwf' Hs) as (pre & rest0 & s' & Hcur & Hst & Hmx & Hen & Hgr).
  set (s0 := mkSt (lenN pre) (last_of None pre) rest0 []) in *.
  assert (W0 : wfst cur s0). { split; [exists pre; auto|intros n g []]. }
  destruct (Matches_step cur _ _ _ (mx_Matches _ _ _ Hmx) W0) as [_ (wc & Cwc & Iwc)].
  assert (Hw : grp0 m = wc).
  { unfold grp0, grp_s, grp. rewrite Hgr. cbn [nth]. rewrite Iwc. cbn [st_i s0].
    replace (lenN pre + lenN wc - lenN pre) with (lenN wc) by lia. unfold consumed in Cwc. cbn [st_rest s0] in Cwc.
    rewrite Cwc. apply takeN_app_exact. }
  rewrite Er, Hok in Hmx. unfold mdef_open_of in Hmx. cbn [mx] in Hmx.
  destruct Hmx as (s1 & [-> _] & s2 & (n & Hbs & _ & Hn1) & s3 & (x & t3 & Hr2 & Hx & ->) & s4 & HA & s5 & HB & s6 & (y & t6 & Hr5 & Hy & ->) & Hrest).
  (* no leading backslash *)
  assert (s2 = s0).
  { destruct n as [|n]; [exact Hbs|]. exfalso. cbn [iterR mx] in Hbs. destruct Hbs as (sx & (z & tz & Hrz & Hz & _) & _).
    apply lit_match in Hz. subst z. cbn [st_rest s0] in Hrz. unfold consumed in Cwc. cbn [st_rest s0] in Cwc.
    rewrite Hw in Hg0. subst wc. rewrite Hrz in Cwc. cbn in Cwc. inversion Cwc. congruence. }
  subst s2. subst s0. cbn [st_rest st_p st_i st_c] in *.
  apply (pure_transport _ HpA) in HA as (wa & Ea & Pa & _ & Ta). apply (pure_transport _ HpB) in HB as (wb & Eb & Pb & _ & Tb).
  destruct (proj1 Matches_consumed_ex _ _ _ (mx_Matches _ _ _ Hrest)) as (wr & Cr). unfold consumed in Cr, Cwc.
  cbn [st_rest st_p] in *.
  assert (Ewc : wc = x :: wa ++ wb ++ y :: wr).
  { assert (E : (x :: wa ++ wb ++ y :: wr) ++ st_rest s' = wc ++ st_rest s').
    { rewrite <- Cwc, Hr2, Ea, Eb, Hr5, Cr. cbn [app]. repeat (rewrite <- app_assoc; cbn [app]). reflexivity. }
    apply app_inv_tail in E. auto. }
  rewrite Hw, Ewc.
  apply (re_search_complete _ [] (x :: wa ++ wb ++ y :: wr)
           (mkSt (0 + 1 + lenN wa + lenN wb + 1) (Some y) wr
                 [(1%nat, {| c_s := 0 + 1; c_e := 0 + 1 + lenN wa + lenN wb; c_txt := wa ++ wb ++ y :: wr |})])).
  - rewrite Hfil. cbn [wf_exact mdef_filter_of]. rewrite Er in Hwf'. cbn [wf_exact] in Hwf'.
    repeat match goal with H : _ && _ = true |- _ => apply andb_prop in H as [? ?] end.
    repeat (apply andb_true_intro; split); try reflexivity; assumption.
  - rewrite Hfil. unfold mdef_filter_of. cbn [mx lenN last_of].
    exists (mkSt 0 None (x :: wa ++ wb ++ y :: wr) []). split; [split; reflexivity|].
    exists (mkSt (0 + 1) (Some x) (wa ++ wb ++ y :: wr) []). split; [exists x, (wa ++ wb ++ y :: wr); cbn; auto|].
    exists (mkSt (0 + 1 + lenN wa + lenN wb) (last_of (last_of (Some x) wa) wb) (y :: wr)
                 [(1%nat, {| c_s := 0 + 1; c_e := 0 + 1 + lenN wa + lenN wb; c_txt := wa ++ wb ++ y :: wr |})]). split.
    + exists (mkSt (0 + 1 + lenN wa + lenN wb) (last_of (last_of (Some x) wa) wb) (y :: wr) []). split; [|reflexivity].
      exists (mkSt (0 + 1 + lenN wa) (last_of (Some x) wa) (wb ++ y :: wr) []). split; [apply Ta|].
      rewrite Pa in Tb. apply Tb.
    + exists y, wr. cbn. auto.
Qed.

(* C13 end to end: a one-line document with an inline HTML tag (instance of ParaDoc.v). *)
From Rimu Require Import Base Unicode Regex RegexAnalysis RegexParse Str Types Tables Guards State Inline Block
  Frame FrameBlock FrameInst OptionsLemmas MiscLemmas MoreLemmas Plain TableFacts Lines PlainDoc
  RegexSem MatchLemmas MatchExact ScanLemmas ParaDoc HtmlTag.
From Coq Require Import Lia.
Local Open Scope monad_scope.

(* ---- instance: a line with an inline HTML tag ---- *)
Definition word_first : list char := $"abcdefghijklmnopqrstuvwxyzABCDEFGHIJKLMNOPQRSTUVWXYZ0123456789".
Definition word2_alphabet : list char := $"abcdefghijklmnopqrstuvwxyzABCDEFGHIJKLMNOPQRSTUVWXYZ0123456789 ,".
Definition tag_line_alphabet : list char := word2_alphabet ++ [60; 62].

Lemma tag_line_facts :
  forallb (fun r => never_matches tag_line_alphabet word_first (re_ast r)) block_regexes = true /\
  forallb (fun c => negb (is_space c)) word_first = true /\
  forallb (fun c => negb (is_nl c) && negb (reserved c) && no_macro_start c) tag_line_alphabet = true /\
  forallb (fun c => existsb (N.eqb c) word_alphabet) word2_alphabet = true.
Proof. repeat split; vm_compute; reflexivity. Qed.

Lemma word2_word t : over word2_alphabet t -> over word_alphabet t.
Proof.
  intros H x Hx. apply H in Hx. destruct tag_line_facts as (_ & _ & _ & W). rewrite forallb_forall in W. apply W in Hx.
  apply existsb_exists in Hx as (y & Hy & E). apply N.eqb_eq in E. subst y. exact Hy.
Qed.

Theorem tag_document n s c pre name post :
  quiet_default s -> In c word_first -> over word2_alphabet (c :: pre) -> name_ok2 name -> over word2_alphabet name -> over word2_alphabet post ->
  doc_render (S (S (S (S (S (S n)))))) ((c :: pre) ++ 60 :: name ++ 62 :: post) s =
  Ok ($"<p>" ++ ((c :: pre) ++ htmlSafeModeFilter (ienv_of s) (60 :: name ++ [62]) ++ post) ++ $"</p>", s).
Proof.
  intros Hq Hc Hpre Hname Hnw Hpost. apply para_line_document; [|exact Hq].
  destruct tag_line_facts as (F1 & F0 & F2 & _).
  apply (a_line_para tag_line_alphabet word_first F1 F0 F2).
  - cbn [app]. split; [exact Hc|]. unfold tag_line_alphabet. intros x Hx. apply in_or_app.
    change (c :: pre ++ 60 :: name ++ 62 :: post) with ((c :: pre) ++ 60 :: name ++ 62 :: post) in Hx.
    apply in_app_or in Hx as [Hx|[<-|Hx]]; [left; auto|right; left; reflexivity|].
    apply in_app_or in Hx as [Hx|[<-|Hx]]; [left; auto|right; right; left; reflexivity|left; auto].
  - intros m. apply spans_render_tag; auto using word2_word. apply quiet_defaults. exact Hq.
Qed.

Corollary tag_api n o s s1 c pre name post :
  updateFrom o (if (s_mode s =? -1)%Z then document_init s else s) = Ok (tt, s1) -> quiet_default s1 ->
  In c word_first -> over word2_alphabet (c :: pre) -> name_ok2 name -> over word2_alphabet name -> over word2_alphabet post ->
  api_render (S (S (S (S (S (S n)))))) ((c :: pre) ++ 60 :: name ++ 62 :: post) o s =
  Ok ($"<p>" ++ ((c :: pre) ++ htmlSafeModeFilter (ienv_of s1) (60 :: name ++ [62]) ++ post) ++ $"</p>", s1).
Proof. intros Hu Hq. intros. eapply api_of_doc; [exact Hu|]. apply tag_document; assumption. Qed.

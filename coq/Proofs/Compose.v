(* C08, blocks in order: the verified single-block renderings compose.  A header as the first block of any reader is rendered to
   its element followed by the rendering of the rest; with a paragraph line as the rest the document is the two elements in order. *)
From Rimu Require Import Base Unicode Regex RegexAnalysis RegexParse Str Types Tables Guards State Inline Block
  Frame FrameBlock FrameInst OptionsLemmas MiscLemmas MoreLemmas Plain TableFacts Lines PlainDoc
  RegexSem MatchLemmas MatchExact ScanLemmas ParaDoc HeaderDoc MacroSubst MacroDefine MacroDoc.
From Coq Require Import Lia.
Local Open Scope monad_scope.

Definition header_html (mk title : str) : str := $"<h" ++ level_str mk ++ $">" ++ escape title ++ $"</h" ++ level_str mk ++ $">".

Theorem header_then_rest f doc n mk title rest s : quiet_default s -> header_ids_off s -> marker_ok mk -> title_ok title ->
  doc_loop (S (S (S f))) doc (S n) (hd_line mk title :: rest) s =
  match doc_loop (S (S (S f))) doc n rest s with
  | Ok (r, s2) => Ok (header_html mk title ++ match rest with [] => [] | _ => [10] end ++ r, s2)
  | Raise e => Raise e
  | Fuel => Fuel
  end.
Proof.
  intros Hq Hoff Hmk Ht.
  rewrite (TableFacts.doc_loop_line_block (S (S (S f))) doc n (hd_line mk title :: rest) (hd_line mk title) rest
             ($"<h" ++ (level_str mk ++ $">") ++ escape title ++ $"</h" ++ (level_str mk ++ $">") ++ match rest with [] => [] | _ => [10] end) rest s s).
  - destruct (doc_loop (S (S (S f))) doc n rest s) as [[r s2]| |]; try reflexivity.
    unfold header_html. repeat (rewrite <- app_assoc; cbn [app]). reflexivity.
  - unfold hd_line. destruct Hmk as (Hne & Hall & _). destruct mk as [|a mk0]; [congruence|]. cbn [app skipBlankLines].
    rewrite strip_nonblank; [reflexivity|]. rewrite (Hall a (or_introl eq_refl)). reflexivity.
  - apply (header_line f mk title rest s Hq Hoff Hmk Ht).
Qed.

Theorem header_then_paragraph n k doc mk title l R s (Hpl : para_line (ienv_of s) l R) :
  quiet_default s -> header_ids_off s -> marker_ok mk -> title_ok title ->
  doc_loop (S (S (S (S n)))) doc (S (S (S k))) [hd_line mk title; []; l] s =
  Ok (header_html mk title ++ [10] ++ $"<p>" ++ R ++ $"</p>", s).
Proof.
  intros Hq Hoff Hmk Ht. rewrite (header_then_rest (S n) doc (S (S k)) mk title _ s Hq Hoff Hmk Ht).
  rewrite (para_line_loop l R n k doc [[]; l] s Hpl Hq).
  - reflexivity.
  - cbn [skipBlankLines]. replace (is_empty (strip [])) with true by reflexivity.
    destruct (pl_first _ _ _ Hpl) as (c & rest & -> & Hc). rewrite strip_nonblank; [reflexivity|exact Hc].
Qed.

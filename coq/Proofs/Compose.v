(* C08, blocks in order: the verified single-block renderings compose.  A header as the first block of any reader is rendered to
   its element followed by the rendering of the rest; with a paragraph line as the rest the document is the two elements in order. *)
From Rimu Require Import Base Unicode Regex RegexAnalysis RegexParse Str Types Tables Guards State Inline Block
  Frame FrameBlock FrameInst OptionsLemmas MiscLemmas MoreLemmas Plain TableFacts Lines PlainDoc
  RegexSem MatchLemmas MatchExact ScanLemmas ParaDoc HeaderDoc MacroSubst MacroDefine MacroDoc.
From Coq Require Import Lia.
Local Open Scope monad_scope.

Definition header_html (mk title : str) : str := $"<h" ++ level_str mk ++ $">" ++ escape title ++ $"</h" ++ level_str mk ++ $">".

Theorem header_then_rest f doc n mk title rest s : quiet_default s -> header_ids_off s -> marker_ok mk -> title_ok title ->
  doc_loop (S (S (S f))) doc (S n) (hd_line mk title :: rest) s =
  match doc_loop (S (S (S f))) doc n rest s with
  | Ok (r, s2) => Ok (header_html mk title ++ match rest with [] => [] | _ => [10] end ++ r, s2)
  | Raise e => Raise e
  | Fuel => Fuel
  end.
Proof.
  intros Hq Hoff Hmk Ht.
  rewrite (TableFacts.doc_loop_line_block (S (S (S f))) doc n (hd_line mk title :: rest) (hd_line mk title) rest
             ($"<h" ++ (level_str mk ++ $">") ++ escape title ++ $"</h" ++ (level_str mk ++ $">") ++ match rest with [] => [] | _ => [10] end) rest s s).
  - destruct (doc_loop (S (S (S f))) doc n rest s) as [[r s2]| |]; try reflexivity.
    unfold header_html. repeat (rewrite <- app_assoc; cbn [app]). reflexivity.
  - unfold hd_line. destruct Hmk as (Hne & Hall & _). destruct mk as [|a mk0]; [congruence|]. cbn [app skipBlankLines].
    rewrite strip_nonblank; [reflexivity|]. rewrite (Hall a (or_introl eq_refl)). reflexivity.
  - apply (header_line f mk title rest s Hq Hoff Hmk Ht).
Qed.

Theorem header_then_paragraph n k doc mk title l R s (Hpl : para_line (ienv_of s) l R) :
  quiet_default s -> header_ids_off s -> marker_ok mk -> title_ok title ->
  doc_loop (S (S (S (S n)))) doc (S (S (S k))) [hd_line mk title; []; l] s =
  Ok (header_html mk title ++ [10] ++ $"<p>" ++ R ++ $"</p>", s).
Proof.
  intros Hq Hoff Hmk Ht. rewrite (header_then_rest (S n) doc (S (S k)) mk title _ s Hq Hoff Hmk Ht).
  rewrite (para_line_loop l R n k doc [[]; l] s Hpl Hq).
  - reflexivity.
  - cbn [skipBlankLines]. replace (is_empty (strip [])) with true by reflexivity.
    destruct (pl_first _ _ _ Hpl) as (c & rest & -> & Hc). rewrite strip_nonblank; [reflexivity|exact Hc].
Qed.

(* ---- after a fenced code block: the session is again one the block theorems apply to ---- *)
From Rimu Require Import CodeBlock.

Lemma map_dcore_set_close rx : forall i (D : list ddef),
  (forall d, nth_error D i = Some d -> is_classinj d = true) ->
  map dcore ((fix go (k : nat) (l : list ddef) : list ddef :=
               match l with
               | [] => []
               | d :: t => match k with
                           | O => mkD (d_name d) (d_openTag d) (d_closeTag d) (d_openRe d) rx
                                      (d_verify d) (d_delim d) (d_content d) (d_expand d) :: t
                           | S k' => d :: go k' t
                           end
               end) i D) = map dcore D.
Proof.
  induction i as [|i IH]; intros D H; destruct D as [|d t]; try reflexivity.
  - cbn [map]. f_equal. specialize (H d eq_refl). unfold dcore, is_classinj in *. cbn [d_delim d_name d_openTag d_closeTag d_openRe d_closeRe d_verify d_content d_expand].
    destruct (d_delim d); try discriminate. reflexivity.
  - cbn [map]. f_equal. apply IH. intros d' Hd'. apply H. exact Hd'.
Qed.

Lemma std_set_closeRe i rx s : dblocks_std (s_dblocks s) -> is_classinj (nth i dblocks_default dummy_ddef) = true -> (i < 9)%nat ->
  dblocks_std (s_dblocks (set_closeRe i rx s)).
Proof.
  intros H Hc Hi. unfold set_closeRe. unfold dblocks_std in *. destruct s; unfold set_dblocks; cbn [State.s_dblocks] in *.
  rewrite map_dcore_set_close; [exact H|].
  intros d Hd. destruct (std_nth_error _ i d H Hd) as (d' & Ed' & Hcore).
  rewrite (nth_error_nth _ _ dummy_ddef Ed') in Hc.
  destruct (dcore_fields _ _ Hcore) as (_ & _ & _ & _ & _ & E6 & _). unfold is_classinj in *. rewrite E6. exact Hc.
Qed.

Lemma quiet_code_after s : quiet_default s -> quiet_default (code_after s).
Proof.
  intros (Hd & Hr & Hq & Hp & Ho). unfold code_after.
  assert (Hstd : dblocks_std (s_dblocks (set_closeRe 4 (lit_close fence) s))) by (apply std_set_closeRe; [exact Hd|reflexivity|lia]).
  destruct Hp as (P1 & P2 & P3 & P4).
  unfold set_closeRe in *. destruct s; cbn in *. repeat split; assumption.
Qed.

Definition code_html (content : list str) : str := $"<pre><code>" ++ escape (join [10] content) ++ $"</code></pre>".

Theorem code_block_then_rest fuel doc n content rest s : quiet_default s -> Forall nlfree content -> ~ In fence content ->
  doc_loop (S fuel) doc (S n) (fence :: content ++ fence :: rest) s =
  match doc_loop (S fuel) doc n rest (code_after s) with
  | Ok (r, s2) => Ok (code_html content ++ match rest with [] => [] | _ => [10] end ++ r, s2)
  | Raise e => Raise e
  | Fuel => Fuel
  end.
Proof.
  intros Hq Hc Hnot. destruct fence_facts as (Fl & Fli & _).
  rewrite (TableFacts.doc_loop_delimited_block (S fuel) doc n (fence :: content ++ fence :: rest) fence (content ++ fence :: rest)
             (fence :: content ++ fence :: rest) (fence :: content ++ fence :: rest)
             (code_html content ++ match rest with [] => [] | _ => [10] end) rest s s s (code_after s)).
  - destruct (doc_loop (S fuel) doc n rest (code_after s)) as [[r s2]| |]; try reflexivity. rewrite <- app_assoc. reflexivity.
  - reflexivity.
  - unfold lineblocks_render. apply lineblocks_loop_none_rest. exact (none_of (fun d => re_search (l_re d) fence) _ Fl).
  - unfold lists_render, bind, matchItem. rewrite matchItem_loop_none_rest; [reflexivity|].
    exact (none_of (fun d => re_search (li_re d) fence) _ Fli).
  - unfold code_html. rewrite <- !app_assoc. apply (dblocks_render_code fuel doc content rest s Hq Hc Hnot).
Qed.

(* a fenced code block, a blank line, a paragraph line: the two elements in order *)
Theorem code_then_paragraph n k doc content l R s (Hpl : para_line (ienv_of s) l R) :
  quiet_default s -> Forall nlfree content -> ~ In fence content ->
  doc_loop (S (S (S (S n)))) doc (S (S (S k))) (fence :: content ++ fence :: [[]; l]) s =
  Ok (code_html content ++ [10] ++ $"<p>" ++ R ++ $"</p>", code_after s).
Proof.
  intros Hq Hc Hnot. rewrite (code_block_then_rest (S (S (S n))) doc (S (S k)) content [[]; l] s Hq Hc Hnot).
  assert (Hpl' : para_line (ienv_of (code_after s)) l R) by (unfold code_after, set_closeRe; destruct s; exact Hpl).
  rewrite (para_line_loop l R n k doc [[]; l] (code_after s) Hpl' (quiet_code_after s Hq)).
  - reflexivity.
  - cbn [skipBlankLines]. replace (is_empty (strip [])) with true by reflexivity.
    destruct (pl_first _ _ _ Hpl) as (c & rest & -> & Hcc). rewrite strip_nonblank; [reflexivity|exact Hcc].
Qed.

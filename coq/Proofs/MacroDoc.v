(* C11 end to end: a paragraph that invokes a defined macro renders as the paragraph with the value written in its place;
   together with MacroDefine.v: the two-block document  {name}='value' / blank / paragraph with {name}. *)
From Rimu Require Import Base Unicode Regex RegexAnalysis RegexParse Str Types Tables Guards State Inline Block
  Frame FrameBlock FrameInst OptionsLemmas MiscLemmas MoreLemmas Plain TableFacts Lines PlainDoc
  RegexSem MatchLemmas MatchExact ScanLemmas ParaDoc MacroSubst MacroDefine Locality.
From Coq Require Import Lia.
Local Open Scope monad_scope.

Definition inv_alphabet : list char := safe_alphabet ++ [123].
Definition alnum_alphabet : list char := firstn 62 safe_alphabet.

Lemma inv_facts :
  forallb (fun r => never_matches inv_alphabet safe_first (re_ast r)) block_regexes = true /\
  forallb (fun c => negb (is_nl c) && negb (reserved c)) inv_alphabet = true /\
  forallb (set_match false name_set) alnum_alphabet = true /\
  forallb (fun c => existsb (N.eqb c) safe_alphabet) alnum_alphabet = true.
Proof. repeat split; vm_compute; reflexivity. Qed.

Lemma safe_quiet t : over safe_alphabet t -> quiet t.
Proof.
  intros Ho. split.
  - intros x Hx. apply Ho in Hx. pose proof safe_no_macro_start as H. rewrite forallb_forall in H. auto.
  - destruct (existsb (N.eqb 2) t) eqn:E; auto. apply existsb_exists in E as (x & Hx & Ex). apply N.eqb_eq in Ex. subst x.
    apply Ho in Hx. pose proof safe_no_special as H. rewrite forallb_forall in H. apply H in Hx.
    apply andb_true_iff in Hx as [_ Hx]. discriminate Hx.
Qed.

Definition inv_name_ok (name : str) : Prop := name <> [] /\ over alnum_alphabet name.

Lemma inv_name_ok_name name : inv_name_ok name -> name_ok name.
Proof.
  intros [Hne Ho]. split; [exact Hne|]. intros x Hx. apply Ho in Hx. destruct inv_facts as (_ & _ & F & _).
  rewrite forallb_forall in F. auto.
Qed.

Lemma alnum_safe x : In x alnum_alphabet -> In x safe_alphabet.
Proof.
  intros Hx. destruct inv_facts as (_ & _ & _ & F). rewrite forallb_forall in F. apply F in Hx.
  apply existsb_exists in Hx as (y & Hy & E). apply N.eqb_eq in E. subst y. exact Hy.
Qed.

Lemma invocation_para_line s c pre name post value :
  defaults (ienv_of s) -> In c safe_first -> over safe_alphabet (c :: pre) -> over safe_alphabet post -> over safe_alphabet value ->
  inv_name_ok name -> getValue (ienv_of s) name = Some value ->
  para_line (ienv_of s) ((c :: pre) ++ 123 :: name ++ 125 :: post) (escape ((c :: pre) ++ value ++ post)).
Proof.
  intros Hd Hc Hpre Hpost Hval Hname Hget. destruct inv_facts as (F1 & F2 & _ & _).
  assert (Hover : over inv_alphabet ((c :: pre) ++ 123 :: name ++ 125 :: post)).
  { unfold inv_alphabet. intros x Hx. apply in_or_app. apply in_app_or in Hx as [Hx|[<-|Hx]]; [left; auto|right; left; reflexivity|].
    apply in_app_or in Hx as [Hx|[<-|Hx]]; [left; apply alnum_safe; apply (proj2 Hname); exact Hx|left; vm_compute; intuition|left; auto]. }
  assert (Hch : forall x, In x ((c :: pre) ++ 123 :: name ++ 125 :: post) -> is_nl x = false /\ reserved x = false).
  { intros x Hx. apply Hover in Hx. rewrite forallb_forall in F2. apply F2 in Hx. apply andb_prop in Hx as [H1 H2].
    apply negb_true_iff in H1, H2. auto. }
  constructor.
  - exists c, (pre ++ 123 :: name ++ 125 :: post). split; [reflexivity|]. apply safe_first_nonspace. exact Hc.
  - intros r Hr. cbn [app] in *. rewrite forallb_forall in F1. eapply never_matches_sound; eauto.
  - intros x Hx. apply (proj1 (Hch x Hx)).
  - unfold blank_reserved. rewrite <- (map_id (_ ++ _)) at 2. apply map_ext_in. intros x Hx.
    destruct (Hch x Hx) as [_ Hr]. unfold reserved in Hr. rewrite Hr. reflexivity.
  - intros n. unfold para_expand.
    rewrite (invocation_equals_substitution _ (ienv_of s) (c :: pre) name post value (mkExpand (Some true) None None (Some true) (Some true))
               (safe_quiet _ Hpre) (safe_quiet _ Hpost) (safe_quiet _ Hval) (inv_name_ok_name _ Hname) Hget eq_refl).
    apply (inline_plain (S n)); [exact Hd|]. cbn [app]. split; [exact Hc|].
    intros x Hx. change (c :: pre ++ value ++ post) with ((c :: pre) ++ value ++ post) in Hx.
    apply in_app_or in Hx as [Hx|Hx]; [auto|]. apply in_app_or in Hx as [Hx|Hx]; auto.
Qed.

Theorem invocation_document n s c pre name post value :
  quiet_default s -> In c safe_first -> over safe_alphabet (c :: pre) -> over safe_alphabet post -> over safe_alphabet value ->
  inv_name_ok name -> getValue (ienv_of s) name = Some value ->
  doc_render (S (S (S (S (S (S n)))))) ((c :: pre) ++ 123 :: name ++ 125 :: post) s =
  Ok ($"<p>" ++ escape ((c :: pre) ++ value ++ post) ++ $"</p>", s).
Proof.
  intros Hq Hc Hpre Hpost Hval Hname Hget. apply para_line_document; [|exact Hq].
  apply invocation_para_line; auto. apply quiet_defaults. exact Hq.
Qed.

(* ---- the paragraph as the last block of a reader, at the level of the block loop ---- *)
Lemma para_line_loop l R n k doc rd s (Hpl : para_line (ienv_of s) l R) : quiet_default s -> skipBlankLines rd = [l] ->
  doc_loop (S (S (S (S n)))) doc (S (S k)) rd s = Ok ($"<p>" ++ R ++ $"</p>", s).
Proof.
  intros Hq Hs.
  rewrite (TableFacts.doc_loop_delimited_block (S (S (S (S n)))) doc (S k) rd l [] [l] [l] ($"<p>" ++ R ++ $"</p>") [] s s s s).
  - rewrite (TableFacts.doc_loop_blank_only _ _ k [] s) by reflexivity. rewrite app_nil_r. reflexivity.
  - exact Hs.
  - apply (g_stage_line l R _ Hpl).
  - apply (g_stage_list l R _ Hpl).
  - apply (g_stage_para l R n); auto.
Qed.

Lemma mk_reader_line l : (forall x, In x l -> is_nl x = false /\ reserved x = false) -> mk_reader l = [l].
Proof.
  intros H. rewrite mk_reader_spec.
  assert (Hb : blank_reserved l = l).
  { unfold blank_reserved. rewrite <- (map_id l) at 2. apply map_ext_in. intros x Hx.
    destruct (H x Hx) as [_ Hr]. unfold reserved in Hr. rewrite Hr. reflexivity. }
  rewrite Hb. unfold split_lines.
  pose proof (split_aux_prefix l [] [] (fun x Hx => proj1 (H x Hx))) as E. rewrite app_nil_r in E.
  rewrite E. cbn [split_lines_aux]. rewrite split_aux_nil_cur_frev. reflexivity.
Qed.

(* setValue: what the session looks like afterwards *)
Lemma setValue_get name value s : name_ok name -> name <> $"--" -> setValue_skip (s_mode s) = false ->
  exists s', macros_setValue name value s = Ok (tt, s') /\ getValue (ienv_of s') name = Some value /\
             (quiet_default s -> quiet_default s').
Proof.
  intros Hn Hne Hs.
  assert (Hq : ends_with [63] name = false).
  { apply ends_with_q_false. intros x Hx E. subst x. apply (proj2 Hn) in Hx. rewrite name_set_q in Hx. discriminate. }
  assert (Hd : str_eqb name ($"--") = false) by (apply str_eqb_neq; exact Hne).
  destruct (macros_setValue_spec name value s Hs) as (s' & E & Hm & _). exists s'. split; [exact E|]. split.
  - unfold getValue, ienv_of. cbn [en_macros]. rewrite Hm. unfold setValue_table. rewrite Hq, Hd. cbn [andb]. apply define_overrides.
  - intros (H1 & H2 & H3 & H4 & H5). unfold macros_setValue, bind, gets in E. rewrite Hs, Hq, Hd in E. cbn [andb] in E.
    unfold modify in E. inversion E. clear E. destruct H4 as (P1 & P2 & P3 & P4). destruct s; cbn in *. repeat split; assumption.
Qed.

(* ---- definition, blank line, paragraph with the invocation ---- *)
Definition inv_para (c : char) (pre name post : str) : str := (c :: pre) ++ 123 :: name ++ 125 :: post.

Theorem define_invoke_reader n k doc s c pre name post value :
  quiet_default s -> setValue_skip (s_mode s) = false -> name <> $"--" ->
  In c safe_first -> over safe_alphabet (c :: pre) -> over safe_alphabet post -> over safe_alphabet value -> inv_name_ok name ->
  exists s', macros_setValue name value s = Ok (tt, s') /\
    doc_loop (S (S (S (S n)))) doc (S (S (S k))) [def_line name value; []; inv_para c pre name post] s =
    Ok ($"<p>" ++ escape ((c :: pre) ++ value ++ post) ++ $"</p>", s').
Proof.
  intros Hq Hs Hne Hc Hpre Hpost Hval Hname. pose proof (inv_name_ok_name _ Hname) as Hn.
  destruct (setValue_get name value s Hn Hne Hs) as (s' & Hset & Hget & Hq'). exists s'. split; [exact Hset|].
  assert (Hv : value_ok value).
  { intros x Hx E. subst x. apply Hval in Hx. pose proof safe_no_special as F. rewrite forallb_forall in F. apply F in Hx.
    apply andb_prop in Hx as [Hx _]. discriminate Hx. }
  rewrite (def_line_document _ doc (S (S k)) name value _ s s' Hn Hv (safe_quiet _ Hval) Hset).
  apply (para_line_loop (inv_para c pre name post)).
  - apply invocation_para_line; auto. apply quiet_defaults. auto.
  - auto.
  - unfold inv_para. cbn [app skipBlankLines]. replace (is_empty (strip [])) with true by reflexivity.
    rewrite strip_nonblank; [reflexivity|]. apply safe_first_nonspace. exact Hc.
Qed.

Theorem define_invoke_document n s c pre name post value :
  quiet_default s -> setValue_skip (s_mode s) = false -> name <> $"--" ->
  In c safe_first -> over safe_alphabet (c :: pre) -> over safe_alphabet post -> over safe_alphabet value -> inv_name_ok name ->
  exists s', macros_setValue name value s = Ok (tt, s') /\
    doc_render (S (S (S (S (S (S (S n))))))) (def_line name value ++ 10 :: 10 :: inv_para c pre name post) s =
    Ok ($"<p>" ++ escape ((c :: pre) ++ value ++ post) ++ $"</p>", s').
Proof.
  intros Hq Hs Hne Hc Hpre Hpost Hval Hname.
  destruct (define_invoke_reader (S (S n)) (S (S (S n))) (doc_render (S (S (S (S (S (S n))))))) s c pre name post value
              Hq Hs Hne Hc Hpre Hpost Hval Hname) as (s' & Hset & Hloop).
  exists s'. split; [exact Hset|]. rewrite <- Hloop.
  change (doc_render (S (S (S (S (S (S (S n))))))) (def_line name value ++ 10 :: 10 :: inv_para c pre name post)) with
    (doc_loop (S (S (S (S (S (S n)))))) (doc_render (S (S (S (S (S (S n))))))) (S (S (S (S (S (S n))))))
              (mk_reader (def_line name value ++ 10 :: 10 :: inv_para c pre name post))).
  f_equal.
  assert (Hsafe : forall x, In x safe_alphabet -> is_nl x = false /\ reserved x = false).
  { intros x Hx. pose proof safe_no_special as F. rewrite forallb_forall in F. apply F in Hx. apply andb_prop in Hx as [H1 H2].
    apply negb_true_iff in H1, H2. auto. }
  assert (HL : forall x, In x (def_line name value) -> is_nl x = false /\ reserved x = false).
  { intros x Hx. unfold def_line in Hx. destruct Hx as [<-|Hx]; [split; reflexivity|].
    apply in_app_or in Hx as [Hx|[<-|[<-|[<-|Hx]]]]; try (split; reflexivity).
    - apply Hsafe, alnum_safe, (proj2 Hname), Hx.
    - apply in_app_or in Hx as [Hx|[<-|[]]]; [auto|split; reflexivity]. }
  assert (HP : forall x, In x (inv_para c pre name post) -> is_nl x = false /\ reserved x = false).
  { intros x Hx. unfold inv_para in Hx. apply in_app_or in Hx as [Hx|[<-|Hx]]; [auto|split; reflexivity|].
    apply in_app_or in Hx as [Hx|[<-|Hx]]; [apply Hsafe, alnum_safe, (proj2 Hname), Hx|split; reflexivity|auto]. }
  rewrite mk_reader_join.
  - rewrite (mk_reader_line _ HL). change (10 :: inv_para c pre name post) with ([] ++ 10 :: inv_para c pre name post).
    rewrite mk_reader_join by (intros x []). rewrite (mk_reader_line _ HP). reflexivity.
  - intros x Hx E. subst x. apply HL in Hx. destruct Hx as [Hx _]. discriminate Hx.
Qed.

Corollary define_invoke_api n o s s1 c pre name post value :
  updateFrom o (if (s_mode s =? -1)%Z then document_init s else s) = Ok (tt, s1) ->
  quiet_default s1 -> setValue_skip (s_mode s1) = false -> name <> $"--" ->
  In c safe_first -> over safe_alphabet (c :: pre) -> over safe_alphabet post -> over safe_alphabet value -> inv_name_ok name ->
  exists s', macros_setValue name value s1 = Ok (tt, s') /\
    api_render (S (S (S (S (S (S (S n))))))) (def_line name value ++ 10 :: 10 :: inv_para c pre name post) o s =
    Ok ($"<p>" ++ escape ((c :: pre) ++ value ++ post) ++ $"</p>", s').
Proof.
  intros Hu Hq Hs Hne Hc Hpre Hpost Hval Hname.
  destruct (define_invoke_document n s1 c pre name post value Hq Hs Hne Hc Hpre Hpost Hval Hname) as (s' & Hset & Hd).
  exists s'. split; [exact Hset|]. eapply api_of_doc; [exact Hu|exact Hd].
Qed.

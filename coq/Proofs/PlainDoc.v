(* End to end: a one-line document over the safe alphabet renders to <p>escaped line</p>, for
   every length of the line, in a session with the default definitions and nothing pending;
   no diagnostic, no failure, session unchanged. *)
From Rimu Require Import Base Unicode Regex RegexSem RegexAnalysis RegexParse Str Types Tables Guards State Inline Block
  Frame FrameBlock FrameInst OptionsLemmas MiscLemmas MoreLemmas Plain Lines TableFacts.
From Coq Require Import Lia.
Local Open Scope monad_scope.

(* ---- patterns that cannot match a line ---- *)
Definition anchored_body (r : regex) : option regex :=
  match r with RSeq (RBol false) r' => Some r' | _ => None end.

Definition starts_safe (A0 : list char) (r : regex) : bool :=
  match anchored_body r with
  | Some r' => negb (nullable r') && forallb (fun c => negb (first r' c)) A0
  | None => false
  end.

Definition never_matches (A A0 : list char) (r : regex) : bool := negb (okA A r) || starts_safe A0 r.

Lemma search_from_later (r : cre) r' : re_ast r = RSeq (RBol false) r' ->
  forall rest i x, search_from r i (Some x) rest = None.
Proof.
  intros E. induction rest as [|y t IH]; intros i x; cbn [search_from]; unfold match_at; rewrite E; cbn [exec andb option_map].
  - reflexivity.
  - apply IH.
Qed.

Theorem never_matches_sound A A0 (r : cre) c rest :
  never_matches A A0 (re_ast r) = true -> In c A0 -> over A (c :: rest) -> re_search r (c :: rest) = None.
Proof.
  unfold never_matches. intros H Hc Ho. apply orb_true_iff in H as [H|H].
  - apply negb_true_iff in H. apply (re_search_none_over A); auto.
  - unfold starts_safe in H. destruct (anchored_body (re_ast r)) as [r'|] eqn:Ea; [|discriminate].
    apply andb_true_iff in H as [Hn Hf]. apply negb_true_iff in Hn.
    assert (E : re_ast r = RSeq (RBol false) r').
    { unfold anchored_body in Ea. destruct (re_ast r) as [| | |a b| | | | | | | |]; try discriminate.
      destruct a; try discriminate. destruct multiline; try discriminate. inversion Ea; subst. reflexivity. }
    unfold re_search. cbn [search_from]. unfold match_at. rewrite E. cbn [exec].
    destruct (exec r' kfinal 0 None (c :: rest) []) eqn:Ex.
    + apply exec_nonnull_first in Ex as (y & t & Hy & Hfy); auto. inversion Hy; subst.
      rewrite forallb_forall in Hf. apply Hf in Hc. rewrite Hfy in Hc. discriminate.
    + cbn [option_map]. apply (search_from_later r r' E).
Qed.

(* ---- the safe alphabet ---- *)
Definition safe_alphabet : list char := $"abcdefghijklmnopqrstuvwxyzABCDEFGHIJKLMNOPQRSTUVWXYZ0123456789 ,;!?()>]}^%@$" ++ [233; 223; 26085].
Definition safe_first : list char := $"abcdefghijklmnopqrstuvwxyzABCDEFGHIJKLMNOPQRSTUVWXYZ0123456789,;!?()]}^%@$" ++ [233; 223; 26085].

Definition block_regexes : list cre :=
  map l_re lineblocks_defs ++ map li_re lists_defs ++ map d_openRe (removelast dblocks_default).

Lemma block_regexes_never_match :
  forallb (fun r => never_matches safe_alphabet safe_first (re_ast r)) block_regexes = true.
Proof. vm_compute. reflexivity. Qed.

Lemma safe_sub_plain : forallb (fun c => existsb (N.eqb c) plain_alphabet) safe_alphabet = true.
Proof. vm_compute. reflexivity. Qed.

Lemma safe_first_sub : forallb (fun c => existsb (N.eqb c) safe_alphabet) safe_first = true.
Proof. vm_compute. reflexivity. Qed.

Lemma safe_first_not_space : forallb (fun c => negb (is_space c)) safe_first = true.
Proof. vm_compute. reflexivity. Qed.

Lemma safe_no_macro_start : forallb no_macro_start safe_alphabet = true.
Proof. vm_compute. reflexivity. Qed.

Lemma safe_no_special : forallb (fun c => negb (is_nl c) && negb (reserved c)) safe_alphabet = true.
Proof. vm_compute. reflexivity. Qed.

Definition safe_line (l : str) : Prop :=
  match l with c :: rest => In c safe_first /\ over safe_alphabet (c :: rest) | [] => False end.

Lemma safe_line_no_match l r : safe_line l -> In r block_regexes -> re_search r l = None.
Proof.
  destruct l as [|c rest]; [intros []|]. intros [Hc Ho] Hr.
  pose proof block_regexes_never_match as H. rewrite forallb_forall in H.
  eapply never_matches_sound; eauto.
Qed.

Lemma in_forallb_eqb c (l : list char) (P : char -> bool) L :
  forallb (fun x => existsb (N.eqb x) L) l = true -> In c l -> In c L.
Proof.
  intros H Hc. rewrite forallb_forall in H. apply H in Hc. apply existsb_exists in Hc as (y & Hy & E).
  apply N.eqb_eq in E. subst. exact Hy.
Qed.

Lemma safe_line_plain l : safe_line l -> plain_text l.
Proof.
  destruct l as [|c rest]; [intros []|]. intros [_ Ho] x Hx. apply Ho in Hx.
  eapply (in_forallb_eqb x safe_alphabet (fun _ => true)); eauto using safe_sub_plain.
Qed.

(* ---- stage 1: no line block and no list item starts at a safe line ---- *)
Lemma lineblocks_loop_none fuel l s : forall defs,
  (forall d, In d defs -> re_search (l_re d) l = None) ->
  lineblocks_loop fuel defs [l] [] s = Ok ((None, [l]), s).
Proof.
  induction defs as [|d ds IH]; intros H; cbn [lineblocks_loop]; [reflexivity|].
  cbn [andb]. rewrite (H d (or_introl eq_refl)). apply IH. intros d' Hd'. apply H. right. exact Hd'.
Qed.

Lemma matchItem_loop_none l : forall defs,
  (forall d, In d defs -> re_search (li_re d) l = None) -> matchItem_loop defs [l] = Ok (None, [l]).
Proof.
  induction defs as [|d ds IH]; intros H; cbn [matchItem_loop]; [reflexivity|].
  rewrite (H d (or_introl eq_refl)). apply IH. intros d' Hd'. apply H. right. exact Hd'.
Qed.

Lemma in_block_regexes_line d : In d lineblocks_defs -> In (l_re d) block_regexes.
Proof. intros H. unfold block_regexes. apply in_or_app. left. apply in_map. exact H. Qed.
Lemma in_block_regexes_list d : In d lists_defs -> In (li_re d) block_regexes.
Proof. intros H. unfold block_regexes. apply in_or_app. right. apply in_or_app. left. apply in_map. exact H. Qed.
Lemma in_block_regexes_dblock d : In d (removelast dblocks_default) -> In (d_openRe d) block_regexes.
Proof. intros H. unfold block_regexes. apply in_or_app. right. apply in_or_app. right. apply in_map. exact H. Qed.

(* ---- stage 2: the delimited-block rules before the paragraph are skipped ---- *)
Lemma dblock_loop_skip fuel doc l s : forall pre done rest k,
  s_dblocks s = done ++ pre ++ rest ->
  (forall d, In d pre -> re_search (d_openRe d) l = None) ->
  dblock_loop fuel doc (length pre + k) (length done) [l] [] s = dblock_loop fuel doc k (length done + length pre) [l] [] s.
Proof.
  induction pre as [|d pre IH]; intros done rest k Hs H.
  - simpl. rewrite Nat.add_0_r. reflexivity.
  - cbn [length Nat.add dblock_loop]. unfold bind at 1. unfold gets at 1.
    assert (E : nth_error (s_dblocks s) (length done) = Some d).
    { rewrite Hs. rewrite nth_error_app2 by lia. rewrite Nat.sub_diag. reflexivity. }
    rewrite E. cbn [andb]. rewrite (H d (or_introl eq_refl)).
    replace (S (length done)) with (length (done ++ [d])) by (rewrite app_length; simpl; lia).
    rewrite (IH (done ++ [d]) rest k).
    + rewrite app_length. simpl. f_equal. lia.
    + rewrite Hs. rewrite <- app_assoc. reflexivity.
    + intros d' Hd'. apply H. right. exact Hd'.
Qed.

(* ---- stage 3: the paragraph pattern takes the whole line ---- *)
Definition para : ddef := last dblocks_default dummy_ddef.

Lemma para_facts :
  d_name para = $"paragraph" /\ d_delim para = DfOpening /\ d_content para = CfNone /\ d_verify para = DvNone /\
  d_openTag para = $"<p>" /\ d_closeTag para = $"</p>" /\
  d_expand para = mkExpand (Some true) None None (Some true) (Some true) /\
  d_openRe para = {| re_ast := RGrp 1 (RRep true 0 None (RAny false)); re_groups := 1 |} /\
  dblocks_default = removelast dblocks_default ++ [para] /\ length (removelast dblocks_default) = 8%nat.
Proof. vm_compute. repeat split. Qed.


Lemma dot_star_loop (h : N -> caps -> caps) : forall rest fuel cnt last i p c,
  nlfree rest -> (length rest < length fuel)%nat ->
  (match last with Some j => j < i | None => True end) ->
  loop (exec (RAny false)) (fun j _ _ c' => Some (j, h j c')) true 0 None fuel cnt last i p rest c =
  Some (i + lenN rest, h (i + lenN rest) c).
Proof.
  induction rest as [|x t IH]; intros fuel cnt last i p c Hn Hf Hl; destruct fuel as [|u fuel]; try (simpl in Hf; lia).
  - cbn [loop]. replace (cnt <? 0) with false by (symmetry; apply N.ltb_ge; lia).
    assert (Es : same_pos last i = false).
    { unfold same_pos. destruct last as [j|]; auto. apply N.eqb_neq. lia. }
    cbn [more_ok andb]. rewrite Es. cbn [negb exec]. simpl lenN. rewrite N.add_0_r. reflexivity.
  - cbn [loop]. replace (cnt <? 0) with false by (symmetry; apply N.ltb_ge; lia).
    assert (Es : same_pos last i = false).
    { unfold same_pos. destruct last as [j|]; auto. apply N.eqb_neq. lia. }
    cbn [more_ok andb]. rewrite Es. cbn [negb exec orb].
    destruct (is_nl_false x (Hn x (or_introl eq_refl))) as [_ E10]. rewrite E10. cbn [negb].
    rewrite IH.
    + simpl lenN. replace (i + 1 + lenN t) with (i + N.succ (lenN t)) by lia. reflexivity.
    + intros y Hy. apply Hn. right. exact Hy.
    + simpl in Hf. lia.
    + lia.
Qed.

Lemma para_match l : nlfree l ->
  re_search (d_openRe para) l = Some {| m_start := 0; m_end := lenN l; m_groups := [Some l; Some l] |}.
Proof.
  intros Hn. destruct para_facts as (_ & _ & _ & _ & _ & _ & _ & Ere & _). rewrite Ere.
  unfold re_search.
  assert (E : match_at {| re_ast := RGrp 1 (RRep true 0 None (RAny false)); re_groups := 1 |} 0 None l =
              Some {| m_start := 0; m_end := lenN l; m_groups := [Some l; Some l] |}).
  { unfold match_at. cbn [re_ast re_groups exec].
    rewrite (dot_star_loop (fun j c' => (1%nat, {| c_s := 0; c_e := j; c_txt := l |}) :: c')); auto.
    - cbn [option_map mk_mres group_list cap_get Nat.eqb option_map cap_text c_e c_s c_txt].
      rewrite N.add_0_l, N.sub_0_r, takeN_all. unfold cap_text. cbn [c_e c_s c_txt]. rewrite N.sub_0_r, takeN_all. reflexivity.
    - unfold rep_fuel. simpl. lia. }
  destruct l as [|x t]; cbn [search_from]; rewrite E; reflexivity.
Qed.

(* ---- stage 4: the paragraph block itself ---- *)
(* the delimited-block table up to the closing patterns: opening a code, quote or division block overwrites the closing
   pattern of its definition with one built from the opening delimiter, and the entry is read only after it was written *)
Definition is_classinj (d : ddef) : bool := match d_delim d with DfClassInj => true | _ => false end.
Definition dcore (d : ddef) : ddef :=
  mkD (d_name d) (d_openTag d) (d_closeTag d) (d_openRe d) (if is_classinj d then d_openRe d else d_closeRe d)
      (d_verify d) (d_delim d) (d_content d) (d_expand d).
Definition dblocks_std (D : list ddef) : Prop := map dcore D = map dcore dblocks_default.

Lemma std_default : dblocks_std dblocks_default.
Proof. reflexivity. Qed.

Lemma std_length D : dblocks_std D -> length D = 9%nat.
Proof. intros H. rewrite <- (map_length dcore D), H, map_length. reflexivity. Qed.

Lemma dcore_fields d d' : dcore d = dcore d' ->
  d_name d = d_name d' /\ d_openTag d = d_openTag d' /\ d_closeTag d = d_closeTag d' /\ d_openRe d = d_openRe d' /\
  d_verify d = d_verify d' /\ d_delim d = d_delim d' /\ d_content d = d_content d' /\ d_expand d = d_expand d'.
Proof. unfold dcore. intros H. inversion H. repeat split; assumption. Qed.

Lemma dcore_close d d' : dcore d = dcore d' -> is_classinj d' = false -> d_closeRe d = d_closeRe d'.
Proof.
  intros H Hc. destruct (dcore_fields _ _ H) as (_ & _ & _ & _ & _ & E6 & _).
  assert (Hc' : is_classinj d = false) by (unfold is_classinj in *; rewrite E6; exact Hc).
  unfold dcore in H. rewrite Hc, Hc' in H. inversion H. reflexivity.
Qed.


Lemma std_nth_error D i d : dblocks_std D -> nth_error D i = Some d ->
  exists d', nth_error dblocks_default i = Some d' /\ dcore d = dcore d'.
Proof.
  intros H E. assert (E' : nth_error (map dcore D) i = Some (dcore d)) by (apply map_nth_error; exact E).
  rewrite H in E'. destruct (nth_error dblocks_default i) as [d'|] eqn:E2.
  - exists d'. split; [reflexivity|]. rewrite (map_nth_error dcore i dblocks_default E2) in E'. generalize dependent (dcore d'). generalize (dcore d). intros b a Ea. inversion Ea. reflexivity.
  - exfalso. apply nth_error_None in E2. assert (L : (length (map dcore dblocks_default) <= i)%nat) by (rewrite map_length; exact E2).
    apply nth_error_None in L. rewrite L in E'. discriminate.
Qed.

Lemma std_split D : dblocks_std D ->
  exists pre pd, D = pre ++ [pd] /\ length pre = 8%nat /\ map dcore pre = map dcore (removelast dblocks_default) /\ dcore pd = dcore para.
Proof.
  intros H. pose proof (std_length D H) as L.
  assert (Hne : D <> []) by (intros ->; discriminate L). destruct (exists_last Hne) as (pre & pd & ->).
  exists pre, pd. rewrite app_length in L. cbn [length] in L. split; [reflexivity|]. split; [lia|].
  unfold dblocks_std in H. rewrite map_app in H. cbn [map] in H.
  destruct para_facts as (_ & _ & _ & _ & _ & _ & _ & _ & Fsplit & Flen). rewrite Fsplit in H. rewrite map_app in H. cbn [map] in H.
  apply app_inj_tail in H. exact H.
Qed.

Lemma std_nth_last (D pre : list ddef) (pd d0 : ddef) : D = pre ++ [pd] -> length pre = 8%nat -> nth 8 D d0 = pd /\ nth_error D 8 = Some pd.
Proof.
  intros -> L. split.
  - rewrite app_nth2 by lia. rewrite L. reflexivity.
  - rewrite nth_error_app2 by lia. rewrite L. reflexivity.
Qed.

(* the entry at a given index of a standard table, with what comes before it *)
Lemma std_at D i cd0 : dblocks_std D -> (i < 9)%nat ->
  exists pre cd post, D = pre ++ cd :: post /\ length pre = i /\ dcore cd = dcore (nth i dblocks_default cd0) /\
    nth_error D i = Some cd /\ (forall d0, nth i D d0 = cd) /\
    (forall d, In d pre -> exists d', In d' (firstn i dblocks_default) /\ d_openRe d = d_openRe d' /\ d_name d = d_name d').
Proof.
  intros H Hi. pose proof (std_length D H) as L.
  assert (Ecd : exists cd, nth_error D i = Some cd).
  { destruct (nth_error D i) eqn:E; [eauto|]. apply nth_error_None in E. lia. }
  destruct Ecd as (cd & Ecd). destruct (nth_error_split D i Ecd) as (pre & post & ED & Lp).
  exists pre, cd, post. split; [exact ED|]. split; [exact Lp|].
  destruct (std_nth_error D i cd H Ecd) as (d' & Ed' & Hc). split.
  { rewrite Hc. f_equal. symmetry. apply nth_error_nth. exact Ed'. }
  split; [exact Ecd|]. split; [intros d0; apply nth_error_nth; exact Ecd|].
  intros d Hd. unfold dblocks_std in H. rewrite ED in H.
  assert (Hf : map dcore pre = map dcore (firstn i dblocks_default)).
  { rewrite <- firstn_map. rewrite <- H. rewrite map_app. rewrite <- Lp. rewrite <- (map_length dcore pre). rewrite firstn_app, Nat.sub_diag, firstn_all. cbn [firstn]. rewrite app_nil_r. reflexivity. }
  apply (in_map dcore) in Hd. rewrite Hf in Hd. apply in_map_iff in Hd as (d'' & Ed & Hd''). exists d''. split; [exact Hd''|].
  symmetry in Ed. destruct (dcore_fields _ _ Ed) as (E1 & _ & _ & E4 & _). auto.
Qed.

Definition quiet_default (s : session) : Prop :=
  dblocks_std (s_dblocks s) /\ s_repls s = replacements_default /\ s_quotes s = quotes_default /\
  pending_empty s /\ p_opts s = expand_none.

Lemma inject_nothing_pending c t s : pending_empty s -> injectHtmlAttributes (c :: t) true s = Ok (c :: t, s).
Proof.
  intros (H1 & H2 & H3 & H4). unfold injectHtmlAttributes, bind, gets. rewrite H1, H2, H3, H4.
  cbn [nonempty is_empty negb ret]. replace (strip []) with (@nil char) by reflexivity.
  cbn [nonempty is_empty negb modify ret]. f_equal. f_equal. destruct s; simpl in *; subst; reflexivity.
Qed.

Lemma safe_line_nlfree l : safe_line l -> nlfree l.
Proof.
  destruct l as [|c rest]; [intros []|]. intros [_ Ho] x Hx. apply Ho in Hx.
  pose proof safe_no_special as H. rewrite forallb_forall in H. apply H in Hx.
  apply andb_true_iff in Hx as [Hx _]. apply negb_true_iff in Hx. exact Hx.
Qed.

Lemma inline_plain n e l : defaults e -> safe_line l ->
  replaceInline_top (S (S (S n))) e (Some l) (mkExpand (Some true) None None (Some true) (Some true)) = iret (escape l).
Proof.
  intros Hd Hl. unfold replaceInline_top, replaceInline. cbn [truthy e_macros e_spans].
  unfold macros_render_top. rewrite macros_render_identity.
  - cbn [ibind iret]. rewrite spans_render_plain; auto using safe_line_plain.
  - destruct l as [|c rest]; [destruct Hl|]. destruct Hl as [_ Ho]. intros x Hx. apply Ho in Hx.
    pose proof safe_no_macro_start as H. rewrite forallb_forall in H. auto.
  - apply negb_true_iff. destruct (existsb (N.eqb 2) l) eqn:E; auto.
    apply existsb_exists in E as (x & Hx & Ex). apply N.eqb_eq in Ex. subst x.
    destruct l as [|c rest]; [destruct Hl|]. destruct Hl as [_ Ho]. apply Ho in Hx.
    pose proof safe_no_special as H. rewrite forallb_forall in H. apply H in Hx.
    apply andb_true_iff in Hx as [_ Hx]. discriminate Hx.
Qed.

Lemma quiet_defaults s : quiet_default s -> defaults (ienv_of s).
Proof. intros (_ & H2 & H3 & _). split; assumption. Qed.

Lemma para_facts_of pd : dcore pd = dcore para ->
  d_name pd = $"paragraph" /\ d_delim pd = DfOpening /\ d_content pd = CfNone /\ d_verify pd = DvNone /\
  d_openTag pd = $"<p>" /\ d_closeTag pd = $"</p>" /\
  d_expand pd = mkExpand (Some true) None None (Some true) (Some true) /\ d_openRe pd = d_openRe para.
Proof.
  intros H. destruct (dcore_fields _ _ H) as (E1 & E2 & E3 & E4 & E5 & E6 & E7 & E8).
  destruct para_facts as (Fname & Fdelim & Fcontent & Fverify & Fopen & Fclose & Fexp & _).
  rewrite E1, E2, E3, E5, E6, E7, E8. repeat split; assumption.
Qed.

(* the paragraph definition of a session with the standard table: the last entry *)
Lemma std_para s : dblocks_std (s_dblocks s) ->
  exists pre pd, s_dblocks s = pre ++ [pd] /\ length pre = 8%nat /\ dcore pd = dcore para /\
    (forall d0, nth 8 (s_dblocks s) d0 = pd) /\ nth_error (s_dblocks s) 8 = Some pd /\
    (forall d, In d pre -> exists d', In d' (removelast dblocks_default) /\ d_openRe d = d_openRe d').
Proof.
  intros H. destruct (std_split _ H) as (pre & pd & E & L & Hm & Hp). exists pre, pd. split; [exact E|]. split; [exact L|]. split; [exact Hp|].
  split; [intros d0; apply (proj1 (std_nth_last _ pre pd d0 E L))|]. split; [apply (proj2 (std_nth_last _ pre pd pd E L))|].
  intros d Hd. apply (in_map dcore) in Hd. rewrite Hm in Hd. apply in_map_iff in Hd as (d' & Ed & Hd'). exists d'. split; [exact Hd'|].
  symmetry in Ed. destruct (dcore_fields _ _ Ed) as (_ & _ & _ & E4 & _). exact E4.
Qed.

Lemma dblock_body_para n doc l s m pd :
  quiet_default s -> safe_line l -> dcore pd = dcore para -> (forall d0, nth 8 (s_dblocks s) d0 = pd) ->
  m = {| m_start := 0; m_end := lenN l; m_groups := [Some l; Some l] |} ->
  dblock_body (S (S (S n))) doc 8 pd m [] s = Ok (($"<p>" ++ escape l ++ $"</p>", []), s).
Proof.
  intros Hq Hl Hpd Hnth ->. pose proof Hq as (Hd & Hr & Hqt & Hp & Ho).
  destruct l as [|c0 rest0]; [destruct Hl|]. remember (c0 :: rest0) as l eqn:El.
  destruct (para_facts_of pd Hpd) as (Fname & Fdelim & Fcontent & Fverify & Fopen & Fclose & Fexp & Fre).
  unfold dblock_body. rewrite Fdelim.
  unfold bind at 1. cbn [grp nth m_groups ret].
  unfold bind at 1. unfold gets at 1. rewrite (Hnth pd).
  cbn [readTo].
  unfold bind at 1.
  replace (mem (d_name pd) unterminated_names) with false by (rewrite Fname; vm_compute; reflexivity).
  rewrite andb_false_r. cbn [ret tl app].
  unfold bind at 1. unfold gets at 1. rewrite (Hnth pd), Fexp, Ho.
  unfold expand_merge, expand_none. cbn [e_macros e_container e_skip e_spans e_specials truthy].
  replace (match l with [] => [] | _ :: _ => [l] end) with [l] by (rewrite El; reflexivity).
  cbn [app join].
  rewrite Fcontent.
  unfold bind at 1. unfold bind at 1. cbn [ret].
  unfold bind at 1. unfold gets at 1. rewrite (Hnth pd).
  replace (str_eqb (d_name pd) $"html") with false by (rewrite Fname; vm_compute; reflexivity).
  unfold bind at 1. cbn [ret].
  unfold bind at 1. rewrite Fopen.
  change ($"<p>") with (60 :: $"p>"). rewrite inject_nothing_pending by exact Hp.
  unfold bind at 1. unfold lift.
  rewrite (inline_plain n (ienv_of s) l (quiet_defaults s Hq) Hl).
  cbn [iret log_msgs bind ret].
  unfold bind at 1. unfold gets at 1. rewrite (Hnth pd), Fclose.
  replace (str_eqb (d_name pd) $"division") with false by (rewrite Fname; vm_compute; reflexivity).
  cbn [andb ret bind modify].
  assert (Es : forall e, e = expand_none -> set_popts s e = s).
  { intros e ->. destruct s; simpl in *. subst. reflexivity. }
  rewrite Es by reflexivity. rewrite app_nil_r. reflexivity.
Qed.

(* ---- stage 5: the whole document ---- *)
Lemma lstrip_keeps (l : str) x : In x l -> is_space x = false -> lstrip l <> [].
Proof.
  induction l as [|y t IH]; intros Hin Hx; [destruct Hin|]. simpl. destruct (is_space y) eqn:E.
  - destruct Hin as [->|Hin]; [congruence|]. apply IH; auto.
  - discriminate.
Qed.

Lemma strip_nonblank c rest : is_space c = false -> is_empty (strip (c :: rest)) = false.
Proof.
  intros Hc. unfold strip, rstrip. simpl lstrip. rewrite Hc.
  assert (H : lstrip (frev (c :: rest)) <> []).
  { apply (lstrip_keeps _ c); auto. rewrite frev_rev. apply in_rev. rewrite rev_involutive. left. reflexivity. }
  destruct (lstrip (frev (c :: rest))) as [|y t] eqn:E; [contradiction|].
  rewrite frev_rev. destruct (rev (y :: t)) eqn:E2; [|reflexivity].
  apply (f_equal (@length char)) in E2. rewrite rev_length in E2. discriminate.
Qed.

Lemma safe_first_nonspace c : In c safe_first -> is_space c = false.
Proof.
  intros H. pose proof safe_first_not_space as F. rewrite forallb_forall in F. apply F in H. apply negb_true_iff in H. exact H.
Qed.

Lemma mk_reader_safe l : safe_line l -> mk_reader l = [l].
Proof.
  intros Hl. rewrite mk_reader_spec.
  assert (Hb : blank_reserved l = l).
  { unfold blank_reserved. rewrite <- (map_id l) at 2. apply map_ext_in. intros x Hx.
    destruct l as [|c rest]; [destruct Hl|]. destruct Hl as [_ Ho]. apply Ho in Hx.
    pose proof safe_no_special as F. rewrite forallb_forall in F. apply F in Hx.
    apply andb_true_iff in Hx as [_ Hx]. apply negb_true_iff in Hx. unfold reserved in Hx. rewrite Hx. reflexivity. }
  rewrite Hb. unfold split_lines.
  pose proof (split_aux_prefix l [] [] (safe_line_nlfree l Hl)) as E. rewrite app_nil_r in E. rewrite E.
  cbn [split_lines_aux]. rewrite split_aux_nil_cur_frev. reflexivity.
Qed.

Lemma skip_safe l : safe_line l -> skipBlankLines [l] = [l].
Proof.
  destruct l as [|c rest]; [intros []|]. intros [Hc _]. cbn [skipBlankLines].
  rewrite strip_nonblank; [reflexivity|]. apply safe_first_nonspace; auto.
Qed.

Lemma stage_line fuel l s : safe_line l -> lineblocks_render fuel [l] [] s = Ok ((None, [l]), s).
Proof.
  intros Hl. unfold lineblocks_render. apply lineblocks_loop_none.
  intros d Hdin. apply safe_line_no_match; [exact Hl | apply in_block_regexes_line; exact Hdin].
Qed.

Lemma stage_list fuel doc k l s : safe_line l -> lists_render fuel doc k [l] s = Ok ((None, [l]), s).
Proof.
  intros Hl. unfold lists_render, bind, matchItem.
  rewrite matchItem_loop_none; [reflexivity|].
  intros d Hdin. apply safe_line_no_match; [exact Hl | apply in_block_regexes_list; exact Hdin].
Qed.

Lemma stage_para n doc l s : quiet_default s -> safe_line l ->
  dblocks_render (S (S (S n))) doc [l] [] s = Ok ((Some ($"<p>" ++ escape l ++ $"</p>"), []), s).
Proof.
  intros Hq Hl. pose proof Hq as (Hd & _).
  unfold dblocks_render. unfold bind at 1. unfold gets at 1.
  destruct (std_para s Hd) as (pre & pd & Esplit & Lpre & Hpd & Hnth & En & Hpre).
  destruct (para_facts_of pd Hpd) as (Fname & _ & _ & Fverify & _ & _ & _ & Fre).
  rewrite (std_length _ Hd).
  pose proof (dblock_loop_skip (S (S (S n))) doc l s pre [] [pd] 1) as Sk.
  cbn [length app] in Sk. rewrite Lpre in Sk.
  change (8 + 1)%nat with 9%nat in Sk. change (0 + 8)%nat with 8%nat in Sk.
  rewrite Sk.
  - cbn [dblock_loop]. unfold bind at 1. unfold gets at 1.
    rewrite En. cbn [andb]. rewrite Fre.
    rewrite (para_match l) by (apply safe_line_nlfree; exact Hl).
    unfold grp0, grp_s, grp. cbn [nth m_groups].
    rewrite Fname. replace (str_eqb $"paragraph" $"paragraph") with true by reflexivity.
    unfold db_verify. rewrite Fverify. cbn [negb].
    pose proof (dblock_body_para n doc l s _ pd Hq Hl Hpd Hnth eq_refl) as Eb.
    destruct l as [|c rest]; [destruct Hl|].
    unfold bind at 1. rewrite Eb. reflexivity.
  - exact Esplit.
  - intros d Hdin. destruct (Hpre d Hdin) as (d' & Hd' & ->). apply safe_line_no_match; [exact Hl | apply in_block_regexes_dblock; exact Hd'].
Qed.

(* A one-line document over the safe alphabet: exactly <p>escaped line</p>, no diagnostic, session unchanged. *)
Theorem plain_line_document n l s :
  quiet_default s -> safe_line l ->
  doc_render (S (S (S (S (S n))))) l s = Ok ($"<p>" ++ escape l ++ $"</p>", s).
Proof.
  intros Hq Hl.
  change (doc_render (S (S (S (S (S n))))) l) with
    (doc_loop (S (S (S (S n)))) (doc_render (S (S (S (S n))))) (S (S (S (S n)))) (mk_reader l)).
  rewrite (mk_reader_safe l Hl).
  pose proof Hl as Hl'.
  rewrite (TableFacts.doc_loop_delimited_block (S (S (S (S n)))) (doc_render (S (S (S (S n))))) (S (S (S n)))
             [l] l [] [l] [l] ($"<p>" ++ escape l ++ $"</p>") [] s s s s).
  - rewrite (TableFacts.doc_loop_blank_only _ _ (S (S n)) [] s) by reflexivity. rewrite app_nil_r. reflexivity.
  - apply skip_safe. exact Hl'.
  - apply stage_line. exact Hl'.
  - apply stage_list. exact Hl'.
  - apply (stage_para (S n)); auto.
Qed.

(* the same through rimu.render: no failure, no diagnostic, whatever the (legal or illegal) options do to the session first *)
Corollary plain_line_api n l o s s1 :
  updateFrom o (if (s_mode s =? -1)%Z then document_init s else s) = Ok (tt, s1) ->
  quiet_default s1 -> safe_line l ->
  api_render (S (S (S (S (S n))))) l o s = Ok ($"<p>" ++ escape l ++ $"</p>", s1).
Proof.
  intros Hu Hq Hl. rewrite api_render_unfold. cbv zeta. rewrite Hu. apply plain_line_document; auto.
Qed.

Example safe_line_example : safe_line $"Hello world, is 1 > 0 (really)?".
Proof. split; [vm_compute; intuition | intros x Hx; vm_compute in Hx; vm_compute; intuition]. Qed.

Example quiet_default_after_init : quiet_default (document_init S0).
Proof. repeat split. Qed.

(* Lemmas about options.setOption / updateFrom and the render API wrapper. *)
From Rimu Require Import Base Regex RegexParse Str Types Tables Guards State Inline Block Frame FrameBlock FrameInst.
From Coq Require Import Lia.
Local Open Scope monad_scope.

Definition legal_mode (v : str) : bool :=
  match py_int v with PInt n => negb (mode_out_of_range n) | _ => false end.

Definition illegal_msg (v : str) : str := $"illegal safeMode API option value: " ++ v.

Lemma setOption_safeMode_legal v s :
  legal_mode v = true ->
  exists n, py_int v = PInt n /\ (0 <= n <= 15)%Z /\ setOption_safeMode v s = Ok (tt, set_mode s n).
Proof.
  unfold legal_mode, setOption_safeMode. destruct (py_int v) as [n| |]; try discriminate.
  intros H. apply negb_true_iff in H. exists n. repeat split; try (apply out_of_range_spec in H; lia).
  rewrite H. reflexivity.
Qed.

Lemma setOption_safeMode_illegal v s :
  legal_mode v = false ->
  setOption_safeMode v s = Ok (tt, set_log s ((s_cb s, illegal_msg v) :: s_log s)).
Proof.
  unfold legal_mode, setOption_safeMode, illegal_msg. destruct (py_int v) as [n| |]; intros H; try reflexivity.
  apply negb_false_iff in H. rewrite H. reflexivity.
Qed.

Lemma setOption_reset_false v s : reset_is_false v = true -> setOption_reset v s = Ok (tt, s).
Proof. unfold setOption_reset. intros ->. reflexivity. Qed.

Lemma setOption_reset_true v s : reset_is_false v = false -> reset_is_true v = true ->
  setOption_reset v s = Ok (tt, document_init s).
Proof. unfold setOption_reset. intros -> ->. reflexivity. Qed.

Lemma setOption_reset_junk v s : reset_is_false v = false -> reset_is_true v = false ->
  setOption_reset v s = Ok (tt, set_log s ((s_cb s, $"illegal reset API option value: " ++ py_str v) :: s_log s)).
Proof. unfold setOption_reset. intros -> ->. reflexivity. Qed.

(* updateFrom never fails *)
Lemma updateFrom_total o s : exists s', updateFrom o s = Ok (tt, s').
Proof.
  unfold updateFrom, bind. cbn [modify].
  set (s1 := if s_cb s then set_cb s (o_callback o) else s).
  assert (R : exists s2, setOption_reset (o_reset o) s1 = Ok (tt, s2)).
  { unfold setOption_reset. repeat match goal with |- context [if ?c then _ else _] => destruct c end; eexists; reflexivity. }
  destruct R as [s2 ->].
  set (s3 := if o_callback o then set_cb s2 true else s2).
  assert (E3 : (if o_callback o then modify (fun s => set_cb s true) else ret tt) s2 = Ok (tt, s3)).
  { unfold s3. destruct (o_callback o); reflexivity. }
  rewrite E3.
  assert (R4 : exists s4, match o_safeMode o with PyNone => ret tt | v => setOption_safeMode (py_str v) end s3 = Ok (tt, s4)).
  { assert (forall v, exists s4, setOption_safeMode v s3 = Ok (tt, s4)).
    { intros v. destruct (legal_mode v) eqn:E.
      - destruct (setOption_safeMode_legal v s3 E) as (n & _ & _ & ->). eauto.
      - rewrite setOption_safeMode_illegal; eauto. }
    destruct (o_safeMode o); try apply H. eexists; reflexivity. }
  destruct R4 as [s4 ->].
  destruct (o_htmlReplacement o); eexists; reflexivity.
Qed.

(* updateFrom keeps the safe mode in range once initialised *)
Lemma pres_updateFrom_range o : preserves mode_in_range (updateFrom o).
Proof.
  pose proof frame_ok_range as F.
  unfold updateFrom. repeat (apply pres_bind; [|intros _]).
  - apply pres_modify. intros s H. destruct (s_cb s); [destruct s|]; exact H.
  - intros s a s' H Hs. unfold setOption_reset in H.
    repeat match type of H with (if ?c then _ else _) _ = _ => destruct c end.
    + inversion H; subst; auto.
    + inversion H; subst. apply default_mode_in_range.
    + eapply (pres_log_msg _ F); eauto.
  - destruct (o_callback o); [|apply pres_ret]. apply pres_modify. intros s H; destruct s; exact H.
  - assert (forall v, preserves mode_in_range (setOption_safeMode v)).
    { intros v s a s' H Hs. destruct (legal_mode v) eqn:E.
      - destruct (setOption_safeMode_legal v s E) as (n & _ & Hn & E2). rewrite E2 in H. inversion H; subst.
        destruct s; exact Hn.
      - rewrite setOption_safeMode_illegal in H; auto. inversion H; subst. destruct s; exact Hs. }
    destruct (o_safeMode o); try apply H; try apply pres_ret.
  - destruct (o_htmlReplacement o); try (apply pres_modify; intros s0 H0; destruct s0; exact H0); try apply pres_ret.
Qed.

Lemma api_render_unfold n src o s :
  api_render n src o s =
  (let s1 := if (s_mode s =? -1)%Z then document_init s else s in
   match updateFrom o s1 with
   | Ok (_, s2) => doc_render n src s2
   | Raise e => Raise e
   | Fuel => Fuel
   end).
Proof.
  unfold api_render, bind, gets. destruct (s_mode s =? -1)%Z; reflexivity.
Qed.

Theorem api_render_range n src o s html s' :
  (s_mode s = -1 \/ mode_in_range s)%Z ->
  api_render n src o s = Ok (html, s') -> mode_in_range s'.
Proof.
  intros H0 H. rewrite api_render_unfold in H. cbv zeta in H.
  destruct (updateFrom o _) as [[[] s2]| |] eqn:E; try discriminate.
  eapply (pres_doc_render _ frame_ok_range); eauto.
  eapply pres_updateFrom_range; eauto.
  destruct (s_mode s =? -1)%Z eqn:Em.
  - apply default_mode_in_range.
  - destruct H0 as [H0|H0]; auto. apply Z.eqb_neq in Em. contradiction.
Qed.

(* every state reachable from the uninitialised interpreter through render calls *)
Inductive reachable : session -> Prop :=
| R_init : reachable S0
| R_call s n src o html s' : reachable s -> api_render n src o s = Ok (html, s') -> reachable s'.

Theorem reachable_range s : reachable s -> (s_mode s = -1 \/ mode_in_range s)%Z.
Proof.
  induction 1 as [|s n src o html s' _ IH H].
  - left; reflexivity.
  - right. eapply api_render_range; eauto.
Qed.

(* ---- what updateFrom does to the protected part ---- *)
Lemma protected_set_cb s b : protected (set_cb s b) = protected s.
Proof. destruct s; reflexivity. Qed.
Lemma protected_set_log s l : protected (set_log s l) = protected s.
Proof. destruct s; reflexivity. Qed.

Definition cb_step1 (o : opts) (s : session) : session := if s_cb s then set_cb s (o_callback o) else s.
Definition cb_step2 (o : opts) (s : session) : session := if o_callback o then set_cb s true else s.

Lemma protected_cb_step1 o s : protected (cb_step1 o s) = protected s.
Proof. unfold cb_step1. destruct (s_cb s); auto using protected_set_cb. Qed.
Lemma protected_cb_step2 o s : protected (cb_step2 o s) = protected s.
Proof. unfold cb_step2. destruct (o_callback o); auto using protected_set_cb. Qed.

Lemma updateFrom_unfold o s :
  updateFrom o s =
  match setOption_reset (o_reset o) (cb_step1 o s) with
  | Ok (_, s2) =>
      match (match o_safeMode o with PyNone => ret tt | v => setOption_safeMode (py_str v) end) (cb_step2 o s2) with
      | Ok (_, s4) =>
          (match o_htmlReplacement o with PyNone => ret tt | v => modify (fun s => set_repl s (py_str v)) end) s4
      | Raise e => Raise e
      | Fuel => Fuel
      end
  | Raise e => Raise e
  | Fuel => Fuel
  end.
Proof.
  unfold updateFrom, bind, cb_step1, cb_step2. cbn [modify].
  destruct (setOption_reset _ _) as [[[] s2]| |]; auto.
  destruct (o_callback o); reflexivity.
Qed.

Lemma safeMode_step_spec o s : o_safeMode o <> PyNone ->
  (match o_safeMode o with PyNone => ret tt | v => setOption_safeMode (py_str v) end) s =
  setOption_safeMode (py_str (o_safeMode o)) s.
Proof. destruct (o_safeMode o); try reflexivity; contradiction. Qed.

Theorem updateFrom_persist o s s' :
  o_safeMode o = PyNone -> o_htmlReplacement o = PyNone -> reset_is_false (o_reset o) = true ->
  updateFrom o s = Ok (tt, s') -> protected s' = protected s.
Proof.
  intros H1 H2 H3 H. rewrite updateFrom_unfold, H1, H2 in H.
  rewrite setOption_reset_false in H by auto. inversion H; subst.
  rewrite protected_cb_step2, protected_cb_step1. reflexivity.
Qed.

Lemma protected_init s : protected (document_init s) = protected (document_init S0).
Proof. reflexivity. Qed.

Theorem updateFrom_reset_defaults o s s' :
  reset_is_false (o_reset o) = false -> reset_is_true (o_reset o) = true ->
  o_safeMode o = PyNone -> o_htmlReplacement o = PyNone ->
  updateFrom o s = Ok (tt, s') -> protected s' = protected (document_init S0).
Proof.
  intros H1 H2 H3 H4 H. rewrite updateFrom_unfold, H3, H4 in H.
  rewrite setOption_reset_true in H by auto. inversion H; subst.
  rewrite protected_cb_step2. apply protected_init.
Qed.

(* reset first, then the call's own options *)
Theorem updateFrom_reset_then_mode o s s' v :
  reset_is_false (o_reset o) = false -> reset_is_true (o_reset o) = true ->
  o_safeMode o = v -> v <> PyNone -> o_htmlReplacement o = PyNone ->
  updateFrom o s = Ok (tt, s') ->
  (legal_mode (py_str v) = true -> exists n, py_int (py_str v) = PInt n /\ s_mode s' = n) /\
  (legal_mode (py_str v) = false -> s_mode s' = default_safeMode) /\
  s_repl s' = default_htmlReplacement.
Proof.
  intros H1 H2 H3 Hv H4 H. rewrite updateFrom_unfold, H4 in H.
  rewrite setOption_reset_true in H by auto.
  rewrite safeMode_step_spec in H by (rewrite H3; exact Hv). rewrite H3 in H.
  destruct (legal_mode (py_str v)) eqn:L.
  - destruct (setOption_safeMode_legal (py_str v) (cb_step2 o (document_init (cb_step1 o s))) L) as (n & Hn & _ & E2).
    rewrite E2 in H. inversion H; subst. split; [|split].
    + intros _. exists n. split; auto; try (unfold cb_step2; destruct (o_callback o); reflexivity).
    + intros Hc; discriminate.
    + try reflexivity; try (unfold cb_step2; destruct (o_callback o); reflexivity).
  - rewrite setOption_safeMode_illegal in H by auto. inversion H; subst. split; [|split].
    + intros Hc; discriminate.
    + intros _. try reflexivity; try (unfold cb_step2; destruct (o_callback o); reflexivity).
    + try reflexivity; try (unfold cb_step2; destruct (o_callback o); reflexivity).
Qed.

(* option elements inside a document are ignored in every non-zero safe mode; more
   generally nothing in a document changes the protected part of the session then *)
Theorem doc_render_protected n src s html s' :
  s_mode s <> 0%Z -> doc_render n src s = Ok (html, s') -> protected s' = protected s.
Proof.
  intros Hm H.
  pose proof (pres_doc_render (prot_inv (protected s)) (frame_ok_protected (protected s) Hm) n src s html s' H) as R.
  apply R. reflexivity.
Qed.

Theorem doc_render_macros n src s html s' :
  s_mode s <> 0%Z -> Z.land (s_mode s) 8 = 0%Z ->
  doc_render n src s = Ok (html, s') -> s_macros s' = s_macros s.
Proof.
  intros Hm H8 H.
  pose proof (pres_doc_render (prot_macros_inv (protected s) (s_macros s))
               (frame_ok_protected_macros (protected s) (s_macros s) Hm H8) n src s html s' H) as R.
  apply R. split; reflexivity.
Qed.

(* the same at the API: whatever the session was, once the call's options leave it in a
   non-zero safe mode the source cannot change definitions or options *)
Theorem api_render_frame n src o s html s' :
  api_render n src o s = Ok (html, s') ->
  exists s2, updateFrom o (if (s_mode s =? -1)%Z then document_init s else s) = Ok (tt, s2) /\
    (s_mode s2 <> 0%Z -> protected s' = protected s2) /\
    (s_mode s2 <> 0%Z -> Z.land (s_mode s2) 8 = 0%Z -> s_macros s' = s_macros s2).
Proof.
  intros H. rewrite api_render_unfold in H. cbv zeta in H.
  destruct (updateFrom o _) as [[[] s2]| |] eqn:E; try discriminate.
  exists s2. split; auto. split; intros.
  - eapply doc_render_protected; eauto.
  - eapply doc_render_macros; eauto.
Qed.

Theorem reachable_ids_nodup s : reachable s -> NoDup (s_ids s).
Proof.
  induction 1 as [|s n src o html s' _ IH H].
  - constructor.
  - rewrite api_render_unfold in H. cbv zeta in H.
    destruct (updateFrom o _) as [[[] s2]| |] eqn:E; try discriminate.
    eapply (pres_doc_render _ frame_ok_ids); eauto.
    (* updateFrom keeps ids or clears them *)
    assert (U : forall s1, NoDup (s_ids s1) -> forall s2', updateFrom o s1 = Ok (tt, s2') -> NoDup (s_ids s2')).
    { intros s1 Hn s2' H2. rewrite updateFrom_unfold in H2.
      assert (R : forall s3 s4, NoDup (s_ids s3) -> setOption_reset (o_reset o) s3 = Ok (tt, s4) -> NoDup (s_ids s4)).
      { intros s3 s4 H3 H4. unfold setOption_reset in H4.
        destruct (reset_is_false _); [inversion H4; subst; auto|].
        destruct (reset_is_true _); inversion H4; subst; [constructor | destruct s3; exact H3]. }
      destruct (setOption_reset _ _) as [[[] s3]| |] eqn:E3; try discriminate.
      eapply R in E3; [|unfold cb_step1; destruct (s_cb s1); [destruct s1|]; exact Hn].
      assert (M : forall v s5 s6, NoDup (s_ids s5) -> setOption_safeMode v s5 = Ok (tt, s6) -> NoDup (s_ids s6)).
      { intros v s5 s6 H5 H6. destruct (legal_mode v) eqn:L.
        - destruct (setOption_safeMode_legal v s5 L) as (k & _ & _ & E6). rewrite E6 in H6. inversion H6; subst. destruct s5; exact H5.
        - rewrite setOption_safeMode_illegal in H6 by auto. inversion H6; subst. destruct s5; exact H5. }
      assert (C2 : NoDup (s_ids (cb_step2 o s3))) by (unfold cb_step2; destruct (o_callback o); [destruct s3|]; exact E3).
      destruct (o_safeMode o) eqn:Es;
        (destruct ((match o_safeMode o with PyNone => ret tt | v => setOption_safeMode (py_str v) end) (cb_step2 o s3))
           as [[[] s4]| |] eqn:E4; rewrite Es in E4; rewrite ?E4 in H2; try discriminate);
        try (apply M in E4; [|exact C2]);
        try (inversion E4; subst);
        destruct (o_htmlReplacement o); inversion H2; subst; try assumption; try (destruct s4; assumption);
        try (destruct (cb_step2 o s3); assumption). }
    destruct (s_mode s =? -1)%Z; (eapply U; [|exact E]); [constructor | exact IH].
Qed.

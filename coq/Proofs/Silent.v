(* C19, silence: the well-formed documents of the end-to-end theorems are rendered without a diagnostic. *)
From Rimu Require Import Base Unicode Regex RegexAnalysis RegexParse Str Types Tables Guards State Inline Block
  Frame FrameBlock FrameInst OptionsLemmas MiscLemmas MoreLemmas Plain TableFacts Lines PlainDoc
  RegexSem MatchLemmas MatchExact ScanLemmas ParaDoc Emphasis EmDoc HtmlTag TagDoc HeaderDoc CodeBlock ListDoc MacroSubst MacroDefine MacroDoc
  Compose QuoteBlock DivBlock IndentDoc GreedyLoop AttrDoc.
From Coq Require Import Lia.
Local Open Scope monad_scope.

Definition silent {A} (r : Res (A * session)) (s : session) : Prop := exists a s', r = Ok (a, s') /\ s_log s' = s_log s.

Lemma silent_same {A} (a : A) s : silent (Ok (a, s)) s.
Proof. exists a, s. split; reflexivity. Qed.

Theorem emphasis_silent n s c pre body post :
  quiet_default s -> In c safe_first -> over safe_alphabet (c :: pre) -> over safe_alphabet body -> body_ok body -> over safe_alphabet post ->
  silent (doc_render (S (S (S (S (S (S n)))))) ((c :: pre) ++ star :: body ++ star :: post) s) s.
Proof. intros. rewrite emphasis_document by assumption. apply silent_same. Qed.

Theorem tag_silent n s c pre name post :
  quiet_default s -> In c word_first -> over word2_alphabet (c :: pre) -> name_ok2 name -> over word2_alphabet name -> over word2_alphabet post ->
  silent (doc_render (S (S (S (S (S (S n)))))) ((c :: pre) ++ 60 :: name ++ 62 :: post) s) s.
Proof. intros. rewrite tag_document by assumption. apply silent_same. Qed.

Theorem header_silent n mk title s : quiet_default s -> header_ids_off s -> marker_ok mk -> title_ok title ->
  silent (doc_render (S (S (S (S (S n))))) (hd_line mk title) s) s.
Proof. intros. rewrite header_document by assumption. apply silent_same. Qed.

Theorem code_block_silent fuel doc n content s : quiet_default s -> Forall nlfree content -> ~ In fence content ->
  silent (doc_loop (S fuel) doc (S (S n)) (fence :: content ++ [fence]) s) s.
Proof.
  intros. rewrite code_block_document by assumption. eexists _, _. split; [reflexivity|].
  unfold code_after, set_closeRe. destruct s; reflexivity.
Qed.

Theorem comment_block_silent fuel doc n content s : quiet_default s ->
  (forall l, In l content -> re_search (d_closeRe comment_def) l = None) ->
  silent (doc_loop fuel doc (S (S n)) (copen :: content ++ [cclose]) s) s.
Proof. intros. rewrite comment_block_document by assumption. apply silent_same. Qed.

Theorem nested_list_silent n mk1 mk2 item1 item2 s : In mk1 markers -> In mk2 markers -> mk1 <> mk2 ->
  quiet_default s -> li_item_ok item1 -> li_item_ok item2 ->
  silent (doc_render (S (S (S (S (S (S (S (S (S (S (S n))))))))))) (li_line mk1 item1 ++ 10 :: li_line mk2 item2) s) s.
Proof. intros. rewrite nested_list_document by assumption. eexists _, _. split; [reflexivity|]. destruct s; reflexivity. Qed.

Theorem define_invoke_silent n s c pre name post value :
  quiet_default s -> setValue_skip (s_mode s) = false -> name <> $"--" ->
  In c safe_first -> over safe_alphabet (c :: pre) -> over safe_alphabet post -> over safe_alphabet value -> inv_name_ok name ->
  silent (doc_render (S (S (S (S (S (S (S n))))))) (def_line name value ++ 10 :: 10 :: inv_para c pre name post) s) s.
Proof.
  intros Hq Hs Hne Hc Hpre Hpost Hval Hname.
  destruct (define_invoke_document n s c pre name post value Hq Hs Hne Hc Hpre Hpost Hval Hname) as (s' & Hset & Hd).
  rewrite Hd. eexists _, _. split; [reflexivity|].
  pose proof (inv_name_ok_name _ Hname) as Hn.
  assert (Hq63 : ends_with [63] name = false).
  { apply ends_with_q_false. intros x Hx E. subst x. apply (proj2 Hn) in Hx. rewrite name_set_q in Hx. discriminate. }
  assert (Hdd : str_eqb name ($"--") = false) by (apply str_eqb_neq; exact Hne).
  unfold macros_setValue, bind, gets in Hset. rewrite Hs, Hq63, Hdd in Hset. cbn [andb] in Hset. unfold modify in Hset.
  inversion Hset. destruct s; reflexivity.
Qed.

(* ---- the compositional documents ---- *)
Theorem class_paragraph_silent n a w l R s (Hpl : para_line (ienv_of s) l R) :
  quiet_default s -> parse_skip (s_mode s) = false -> cls_name_ok a w ->
  silent (doc_render (S (S (S (S (S n))))) (ba_line a w ++ 10 :: l) s) s.
Proof. intros. rewrite (class_paragraph_document n a w l R s Hpl) by assumption. apply silent_same. Qed.

Theorem quote_paragraph_silent n l R s (Hpl : para_line (ienv_of s) l R) : quiet_default s -> l <> qfence ->
  silent (doc_render (S (S (S (S (S (S (S n))))))) (qfence ++ 10 :: l ++ 10 :: qfence) s) s.
Proof.
  intros. rewrite (quote_paragraph_document n l R s Hpl) by assumption. eexists _, _. split; [reflexivity|].
  unfold quote_open, set_closeRe. destruct s; reflexivity.
Qed.

Theorem division_paragraph_silent n l R s (Hpl : para_line (ienv_of s) l R) : quiet_default s -> l <> dfence ->
  silent (doc_render (S (S (S (S (S (S (S n))))))) (dfence ++ 10 :: l ++ 10 :: dfence) s) s.
Proof.
  intros. rewrite (div_paragraph_document n l R s Hpl) by assumption. eexists _, _. split; [reflexivity|].
  unfold div_open, set_closeRe. destruct s; reflexivity.
Qed.

Theorem indented_silent n sp body s : quiet_default s -> spaces sp -> ind_body_ok body ->
  silent (doc_render (S (S (S n))) (ind_line sp body) s) s.
Proof. intros. rewrite indented_document by assumption. apply silent_same. Qed.

Theorem code_then_paragraph_silent n k doc content l R s (Hpl : para_line (ienv_of s) l R) :
  quiet_default s -> Forall nlfree content -> ~ In fence content ->
  silent (doc_loop (S (S (S (S n)))) doc (S (S (S k))) (fence :: content ++ fence :: [[]; l]) s) s.
Proof.
  intros. rewrite (code_then_paragraph n k doc content l R s Hpl) by assumption. eexists _, _. split; [reflexivity|].
  unfold code_after, set_closeRe. destruct s; reflexivity.
Qed.

(* C10, end to end: the one-line document  "- item"  (item over the safe alphabet, starting and ending with a non-space)
   renders to <ul><li>item</li></ul>: the line passes all line-block patterns, the first list pattern recognises the marker
   (one derivation, exact semantics), the list is opened with the marker pushed, the item loop finds the end of input, the item
   text goes through the inline renderer, and the list is closed with the marker popped. *)
From Rimu Require Import Base Unicode Regex RegexAnalysis RegexParse Str Types Tables Guards State Inline Block
  Frame FrameBlock FrameInst OptionsLemmas MiscLemmas MoreLemmas Plain TableFacts Lines PlainDoc
  RegexSem MatchLemmas MatchExact ScanLemmas ParaDoc.
From Coq Require Import Lia.
Local Open Scope monad_scope.

Definition dash : char := 45.
Definition plus : char := 43.
Definition markers : list char := [dash; plus].
Definition ul_def : listdef := nth 0 lists_defs dummy_listdef.
Definition ulre : cre := li_re ul_def.

Lemma ul_facts :
  li_listOpen ul_def = $"<ul>" /\ li_listClose ul_def = $"</ul>" /\ li_itemOpen ul_def = $"<li>" /\ li_itemClose ul_def = $"</li>" /\
  li_termOpen ul_def = [] /\ re_groups ulre = 2%nat /\ wf_exact (re_ast ulre) = true /\ nullable (re_ast ulre) = false /\
  lists_defs = ul_def :: tl lists_defs.
Proof. repeat split; reflexivity. Qed.

Definition sp_items : list citem :=
  match re_ast ulre with
  | RSeq _ (RSeq _ (RSeq (RRep _ _ _ (RSet false sp)) _)) => sp
  | _ => []
  end.

Lemma ulre_shape : exists others,
  re_ast ulre = RSeq (RBol false) (RSeq (RRep true 0 (Some 1) (RLit 92)) (RSeq (RRep true 0 None (RSet false sp_items))
     (RSeq (RGrp 1 (RAlt (RLit dash) (RAlt (RLit plus) others))) (RSeq (RRep true 1 None (RSet false sp_items))
        (RSeq (RGrp 2 (RRep true 0 None (RAny false))) (REol false)))))) /\
  (forall x, set_match false sp_items x = is_space x) /\
  (forall s s', mx others s s' -> exists x t, st_rest s = x :: t /\ x = 42).
Proof.
  eexists. split; [reflexivity|]. split.
  - intros x. unfold set_match, in_items. change sp_items with [ICat CatSpace false]. cbn [existsb in_item xorb negb orb]. change (in_cat CatSpace x) with (is_space x). destruct (is_space x); reflexivity.
  - intros s s' H. cbn [mx] in H. destruct H as (n & Hi & Hn & _).
    destruct n as [|n]; [lia|]. cbn [iterR mx] in Hi. destruct Hi as (s1 & (x & t & Hr & Hx & _) & _).
    apply lit_match in Hx. eauto.
Qed.

(* item text: over the safe alphabet, nothing that ends a line, first and last character not a space *)
Definition li_item_ok (item : str) : Prop :=
  over safe_alphabet item /\ exists c t, item = c :: t /\ is_space c = false /\ is_space (last item c) = false.

Lemma safe_not_nl x : In x safe_alphabet -> x <> 10 /\ is_nl x = false.
Proof.
  intros Hx. pose proof safe_no_special as H. rewrite forallb_forall in H. apply H in Hx. apply andb_prop in Hx as [Hx _].
  apply negb_true_iff in Hx. split; [|exact Hx]. intros ->. discriminate.
Qed.

Lemma iter_any_intro : forall u i p z c, (forall x, In x u -> x <> 10) ->
  iterR (mx (RAny false)) (length u) (mkSt i p (u ++ z) c) (mkSt (i + lenN u) (last_of p u) z c).
Proof.
  induction u as [|x u IH]; intros i p z c Hu; cbn [length iterR app lenN last_of].
  - rewrite N.add_0_r. reflexivity.
  - exists (mkSt (i + 1) (Some x) (u ++ z) c). split.
    + exists x, (u ++ z). cbn. repeat split; auto. replace (x =? 10) with false; [reflexivity|].
      symmetry. apply N.eqb_neq. apply Hu. left. reflexivity.
    + replace (i + N.succ (lenN u)) with (i + 1 + lenN u) by lia. apply IH. intros y Hy. apply Hu. right. exact Hy.
Qed.

Lemma iter_any_run : forall n s s', iterR (mx (RAny false)) n s s' ->
  exists u, st_rest s = u ++ st_rest s' /\ st_c s' = st_c s /\ st_i s' = st_i s + lenN u /\ st_p s' = last_of (st_p s) u.
Proof.
  induction n as [|n IH]; intros s s' H; cbn [iterR] in H.
  - subst s'. exists []. cbn. rewrite N.add_0_r. auto.
  - destruct H as (s1 & (x & t & Hr & Hx & ->) & H2). apply IH in H2 as (u & Eu & Hc & Hi & Hp). cbn in *.
    exists (x :: u). rewrite Hr, Eu. cbn. repeat split; auto; try (rewrite Hi; lia); try congruence.
Qed.

Section Marker.
Variable mk : char.
Hypothesis Hmk : In mk markers.

Lemma mk_cases : mk = dash \/ mk = plus.
Proof. destruct Hmk as [<-|[<-|[]]]; auto. Qed.

Lemma mk_not_bs : (mk =? 92) = false.
Proof. destruct mk_cases as [-> | ->]; reflexivity. Qed.

Lemma mk_eqb_refl : str_eqb [mk] [mk] = true.
Proof. destruct mk_cases as [-> | ->]; reflexivity. Qed.

Lemma mk_mem : mem [mk] [[mk]] = true.
Proof. destruct mk_cases as [-> | ->]; reflexivity. Qed.

Definition li_final (item : str) : mst :=
  mkSt (lenN item + 2) (last_of (Some 32) item) []
       [(2%nat, {| c_s := 2; c_e := lenN item + 2; c_txt := item |});
        (1%nat, {| c_s := 0; c_e := 1; c_txt := mk :: 32 :: item |})].

Definition li_final' (item : str) : mst :=
  mkSt (0 + 1 + 1 + lenN item) (last_of (Some 32) item) []
       [(2%nat, {| c_s := 0 + 1 + 1; c_e := 0 + 1 + 1 + lenN item; c_txt := item |});
        (1%nat, {| c_s := 0; c_e := 0 + 1; c_txt := mk :: 32 :: item |})].

Lemma li_final_eq item : li_final' item = li_final item.
Proof. unfold li_final, li_final'. replace (0 + 1 + 1 + lenN item) with (lenN item + 2) by lia. reflexivity. Qed.

Lemma li_derivation item s' : li_item_ok item ->
  mx (re_ast ulre) (mkSt 0 None (mk :: 32 :: item) []) s' <-> s' = li_final item.
Proof.
  intros [Hitem (c & t & Ei & Hc & _)]. destruct ulre_shape as (others & Sh & Hsp & Hoth). rewrite Sh. cbn [mx].
  assert (Hnl : forall x, In x item -> x <> 10) by (intros x Hx; apply Hitem in Hx; apply safe_not_nl in Hx; tauto).
  split.
  - intros (s0 & [-> _] & s1 & (n1 & Hbs & _ & _) & s2 & (n2 & Hsp1 & _ & _) & s3 & (s2' & Hg1 & ->) & s4 & (n4 & Hsp2 & Hn4 & _) &
            s5 & (s4' & (n5 & Hany & _ & _) & ->) & [-> Heol]).
    assert (s1 = mkSt 0 None (mk :: 32 :: item) []).
    { destruct n1 as [|n1]; [exact Hbs|]. exfalso. cbn [iterR mx] in Hbs. destruct Hbs as (sx & (z & tz & Hrz & Hz & _) & _).
      apply lit_match in Hz. subst z. cbn in Hrz. destruct mk_cases as [E|E]; rewrite E in Hrz; inversion Hrz. }
    subst s1.
    assert (s2 = mkSt 0 None (mk :: 32 :: item) []).
    { destruct n2 as [|n2]; [exact Hsp1|]. exfalso. cbn [iterR mx] in Hsp1. destruct Hsp1 as (sx & (z & tz & Hrz & Hz & _) & _).
      cbn in Hrz. inversion Hrz; subst z. rewrite Hsp in Hz. destruct mk_cases as [E|E]; rewrite E in Hz; vm_compute in Hz; discriminate. }
    subst s2.
    assert (s2' = mkSt (0 + 1) (Some mk) (32 :: item) []).
    { destruct Hg1 as [(x & tx & Hr & Hx & ->)|[(x & tx & Hr & Hx & ->)|Ho]].
      - cbn in Hr. inversion Hr; subst. reflexivity.
      - cbn in Hr. inversion Hr; subst. reflexivity.
      - exfalso. apply Hoth in Ho as (x & tx & Hr & Hx). cbn in Hr. inversion Hr as [[Ex Et]].
        destruct mk_cases as [E|E]; rewrite E in Ex; rewrite <- Ex in Hx; discriminate. }
    subst s2'. cbn [st_rest st_i st_p st_c] in *.
    (* exactly one space: the item text starts with a non-space *)
    apply iter_set_run in Hsp2 as (u & Eu & Hu & Hc2 & Hi2 & Hp2 & Hl2). cbn [st_rest st_i st_p st_c] in *.
    assert (u = [32]).
    { destruct u as [|y u]; [simpl in Hl2; lia|]. cbn in Eu. inversion Eu as [[Ey Eu']]. subst y.
      destruct u as [|y u]; [reflexivity|]. exfalso. rewrite Ei in Eu'. cbn in Eu'. inversion Eu'; subst y.
      specialize (Hu c (or_intror (or_introl eq_refl))). rewrite Hsp in Hu. congruence. }
    subst u. cbn [app lenN last_of] in *. inversion Eu as [Er4].
    apply iter_any_run in Hany as (w & Ew & Hcw & Hiw & Hpw). cbn [st_rest st_i st_p st_c] in *.
    (* end of line: the dot-star took everything *)
    unfold eol_ok in Heol. cbn [st_rest] in Heol. rewrite <- Er4 in Ew.
    assert (st_rest s4' = []).
    { destruct (st_rest s4') as [|y r] eqn:Er; [reflexivity|]. exfalso.
      apply andb_prop in Heol as [Hy _]. apply N.eqb_eq in Hy. subst y.
      apply (Hnl 10); [|reflexivity]. rewrite Ew. apply in_or_app. right. left. reflexivity. }
    rewrite H in Ew. rewrite app_nil_r in Ew. subst w.
    rewrite <- li_final_eq. unfold li_final'. rewrite Hiw, Hi2, Hcw, Hc2, Hpw, Hp2, H, <- Er4. cbn [lenN]. f_equal; try lia; repeat f_equal; lia.
  - intros ->. rewrite <- li_final_eq. unfold li_final'.
    exists (mkSt 0 None (mk :: 32 :: item) []). split; [split; reflexivity|].
    exists (mkSt 0 None (mk :: 32 :: item) []). split; [exists O; cbn; repeat split; lia|].
    exists (mkSt 0 None (mk :: 32 :: item) []). split; [exists O; cbn; repeat split; lia|].
    set (cap1 := (1%nat, {| c_s := 0; c_e := 0 + 1; c_txt := mk :: 32 :: item |})).
    exists (mkSt (0 + 1) (Some mk) (32 :: item) [cap1]). split.
    { exists (mkSt (0 + 1) (Some mk) (32 :: item) []). split; [|reflexivity].
      destruct mk_cases as [E|E]; [left|right; left]; exists mk, (32 :: item); cbn [st_rest st_i st_p st_c];
        (split; [reflexivity|]); (split; [rewrite E; reflexivity|reflexivity]). }
    exists (mkSt (0 + 1 + 1) (Some 32) item [cap1]). split.
    { exists 1%nat. split; [|split; [lia|exact Logic.I]]. cbn [iterR mx].
      exists (mkSt (0 + 1 + 1) (Some 32) item [cap1]). split; [|reflexivity].
      exists 32, item. cbn [st_rest st_i st_p st_c]. split; [reflexivity|]. split; [rewrite Hsp; reflexivity|reflexivity]. }
    exists (mkSt (0 + 1 + 1 + lenN item) (last_of (Some 32) item) []
                 [(2%nat, {| c_s := 0 + 1 + 1; c_e := 0 + 1 + 1 + lenN item; c_txt := item |}); cap1]). split.
    { exists (mkSt (0 + 1 + 1 + lenN item) (last_of (Some 32) item) [] [cap1]). split; [|reflexivity].
      exists (length item). split; [|split; [lia|exact Logic.I]].
      pose proof (iter_any_intro item (0 + 1 + 1) (Some 32) [] [cap1] Hnl) as Hi. rewrite app_nil_r in Hi. exact Hi. }
    split; reflexivity.
Qed.

Definition li_line (item : str) : str := mk :: 32 :: item.

Lemma li_match item : li_item_ok item ->
  exists m, re_search ulre (li_line item) = Some m /\ m_groups m = [Some (li_line item); Some [mk]; Some item].
Proof.
  intros Hitem. destruct ul_facts as (_ & _ & _ & _ & _ & Hng & Hwf & Hn & _).
  destruct (exec_exact _ Hwf) as [S C]. unfold li_line.
  assert (Hex : match_at ulre 0 None (mk :: 32 :: item) <> None).
  { apply (proj2 (match_at_iff _ _ _ _ Hwf)). exists (li_final item). apply li_derivation; auto. }
  unfold match_at in Hex.
  destruct (exec (re_ast ulre) kfinal 0 None (mk :: 32 :: item) []) as [[e cc]|] eqn:E; [|cbn in Hex; congruence].
  pose proof E as E'. apply S in E' as (s' & M & Hk). apply (li_derivation item s' Hitem) in M. subst s'.
  unfold kapp, kfinal, li_final in Hk. cbn [st_i st_p st_rest st_c] in Hk. inversion Hk; subst e cc. clear Hk.
  eexists. split.
  - unfold re_search. cbn [search_from]. unfold match_at. rewrite E. reflexivity.
  - cbn [option_map mk_mres m_groups]. rewrite Hng. cbn [group_list cap_get Nat.eqb option_map]. unfold cap_text. cbn [c_s c_e c_txt].
    replace (lenN item + 2 - 0) with (lenN (mk :: 32 :: item)) by (cbn [lenN]; lia).
    replace (1 - 0) with (lenN [mk]) by (cbn; lia).
    replace (lenN item + 2 - 2) with (lenN item) by lia.
    rewrite !takeN_all. change (mk :: 32 :: item) with ([mk] ++ 32 :: item). rewrite takeN_app_exact. reflexivity.
Qed.

(* no line-block pattern matches a line that starts with the mk *)
Definition li_alphabet : list char := safe_alphabet ++ markers.
Lemma li_line_blocks : forallb (fun d => never_matches li_alphabet markers (re_ast (l_re d))) lineblocks_defs = true.
Proof. vm_compute. reflexivity. Qed.

Lemma lineblocks_loop_none_rest fuel l rest s : forall defs,
  (forall d, In d defs -> re_search (l_re d) l = None) ->
  lineblocks_loop fuel defs (l :: rest) [] s = Ok ((None, l :: rest), s).
Proof.
  induction defs as [|d ds IH]; intros H; cbn [lineblocks_loop]; [reflexivity|].
  cbn [andb]. rewrite (H d (or_introl eq_refl)). apply IH. intros d' Hd'. apply H. right. exact Hd'.
Qed.

Lemma li_stage_line_rest fuel item rest s : li_item_ok item ->
  lineblocks_render fuel (li_line item :: rest) [] s = Ok ((None, li_line item :: rest), s).
Proof.
  intros [Hitem _]. unfold lineblocks_render. apply lineblocks_loop_none_rest. intros d Hd.
  pose proof li_line_blocks as H. rewrite forallb_forall in H. specialize (H d Hd).
  unfold li_line. eapply never_matches_sound; [exact H|exact Hmk|].
  unfold li_alphabet. intros x [<-|[<-|Hx]]; apply in_or_app; [right; exact Hmk|left; vm_compute; intuition|left; auto].
Qed.

Lemma li_stage_line fuel item s : li_item_ok item -> lineblocks_render fuel [li_line item] [] s = Ok ((None, [li_line item]), s).
Proof. apply li_stage_line_rest. Qed.

(* ---- the list path ---- *)
Lemma pending_set_listids s v : pending_empty s -> pending_empty (set_listids s v).
Proof. intros H. exact H. Qed.

Lemma set_listids_twice s a b : set_listids (set_listids s a) b = set_listids s b.
Proof. reflexivity. Qed.

Lemma frev_app1 {A} (l : list A) x : frev (l ++ [x]) = x :: frev l.
Proof. rewrite !frev_rev. apply rev_unit. Qed.

Lemma frev_frev {A} (l : list A) : frev (frev l) = l.
Proof. rewrite !frev_rev. apply rev_involutive. Qed.

Lemma lstrip_id c t : is_space c = false -> lstrip (c :: t) = c :: t.
Proof. intros H. cbn [lstrip]. rewrite H. reflexivity. Qed.

Lemma strip_item item c t : item = c :: t -> is_space c = false -> is_space (last item c) = false ->
  strip (item ++ [10]) = item.
Proof.
  intros Ei Hc Hl. unfold strip, rstrip. rewrite Ei at 1. cbn [app]. rewrite (lstrip_id c _ Hc).
  change (c :: t ++ [10]) with ((c :: t) ++ [10]). rewrite <- Ei. rewrite frev_app1. cbn [lstrip].
  replace (is_space 10) with true by reflexivity.
  (* frev item starts with the last character of item *)
  assert (Hf : exists r, frev item = last item c :: r).
  { destruct (exists_last (l := item)) as (l' & z & E); [rewrite Ei; discriminate|].
    exists (frev l'). rewrite E at 1. rewrite frev_app1. rewrite E. rewrite last_last. reflexivity. }
  destruct Hf as (r & Er). rewrite Er. rewrite (lstrip_id _ _ Hl). rewrite <- Er. apply frev_frev.
Qed.

Definition list_expand : expand := mkExpand (Some true) None None (Some true) None.

Lemma inline_item n e item : defaults e -> li_item_ok item ->
  replaceInline_top (S (S (S n))) e (Some item) list_expand = iret (escape item).
Proof.
  intros Hd [Hitem _]. unfold replaceInline_top, replaceInline, list_expand. cbn [truthy e_macros e_spans].
  unfold macros_render_top. rewrite macros_render_identity.
  - cbn [ibind iret]. rewrite spans_render_plain; auto. apply safe_over_plain. exact Hitem.
  - intros x Hx. apply Hitem in Hx. pose proof safe_no_macro_start as H. rewrite forallb_forall in H. auto.
  - apply negb_true_iff. destruct (existsb (N.eqb 2) item) eqn:E; auto.
    apply existsb_exists in E as (x & Hx & Ex). apply N.eqb_eq in Ex. subst x. apply Hitem in Hx.
    pose proof safe_no_special as H. rewrite forallb_forall in H. apply H in Hx.
    apply andb_true_iff in Hx as [_ Hx]. discriminate Hx.
Qed.

Section ListRun.
Variable fuel' : nat.
Let fuel := S (S (S fuel')).
Variable doc : str -> M str.

Lemma itemLoop_nil n il at' dn s :
  itemLoop fuel doc (S (S n)) [] il at' dn s = Ok ((None, [], il, at' ++ []), s).
Proof. reflexivity. Qed.

Lemma renderListItem_unfold n it rd :
  renderListItem fuel doc (S n) it rd =
  (let d := it_def it in
   head <-
     (if nonempty (li_termOpen d) then
        t <- injectHtmlAttributes (li_termOpen d) false ;;
        modify (fun s => set_id s []) ;;;
        text <- lift (fun s => replaceInline_top fuel s (grp (it_m it) 1)
                                 (mkExpand (Some true) None None (Some true) None)) ;;
        ret (t ++ text ++ li_termClose d)
      else ret []) ;;
   iopen <- injectHtmlAttributes (li_itemOpen d) true ;;
   match item_text it with
   | None => raise ExNoneGroup
   | Some first =>
       r <- itemLoop fuel doc n (tl rd) (first ++ [10]) [] false ;;
       let '(nextItem, rd', itemLines, attached) := r in
       text <- lift (fun s => replaceInline_top fuel s (Some (strip itemLines))
                                (mkExpand (Some true) None None (Some true) None)) ;;
       ret (head ++ iopen ++ text ++ attached ++ li_itemClose d, nextItem, rd')
   end).
Proof. reflexivity. Qed.

Lemma itemLoop_unfold n rd itemLines attached attachedDone :
  itemLoop fuel doc (S n) rd itemLines attached attachedDone =
  (r <- consumeBlockAttributes fuel n rd 0%Z [] ;;
   let '(blankLines, out, rd1) := r in
   let attached := attached ++ out in
   if (2 <=? blankLines)%Z || (blankLines =? -1)%Z then ret (None, rd1, itemLines, attached)
   else
     r <- matchItem rd1 ;;
     let '(nextItem, rd2) := r in
     match nextItem with
     | Some nx =>
         is_open <- gets (fun s => mem (it_id nx) (s_listids s)) ;;
         if is_open then ret (Some nx, rd2, itemLines, attached)
         else
           r <- renderList fuel doc n nx rd2 ;;
           let '(out, nn, rd3) := r in
           ret (nn, rd3, itemLines, attached ++ out)
     | None =>
         if attachedDone then ret (None, rd2, itemLines, attached)
         else if (blankLines =? 0)%Z then
           saved <- gets s_listids ;;
           modify (fun s => set_listids s []) ;;;
           r <- dblocks_render fuel doc rd2 lists_allowed0 ;;
           modify (fun s => set_listids s saved) ;;;
           match r with
           | (Some out, rd3) => itemLoop fuel doc n rd3 itemLines (attached ++ out) true
           | (None, rd3) =>
               match rd3 with
               | [] => raise ExAssert
               | cur :: rest => itemLoop fuel doc n rest (itemLines ++ cur ++ [10]) attached attachedDone
               end
           end
         else if (blankLines =? 1)%Z then
           saved <- gets s_listids ;;
           modify (fun s => set_listids s []) ;;;
           r <- dblocks_render fuel doc rd2 lists_allowed1 ;;
           modify (fun s => set_listids s saved) ;;;
           match r with
           | (Some out, rd3) => itemLoop fuel doc n rd3 itemLines (attached ++ out) true
           | (None, rd3) => ret (None, rd3, itemLines, attached)
           end
         else out_of_fuel
     end).
Proof. reflexivity. Qed.

Lemma renderItems_unfold n it rd :
  renderItems fuel doc (S n) it rd =
  (r <- renderListItem fuel doc n it rd ;;
   let '(out, nextItem, rd') := r in
   match nextItem with
   | Some nx =>
       if str_eqb (it_id nx) (it_id it)
       then r2 <- renderItems fuel doc n nx rd' ;;
            let '(out2, nn, rd2) := r2 in ret (out ++ out2, nn, rd2)
       else ret (out, nextItem, rd')
   | None => ret (out, None, rd')
   end).
Proof. reflexivity. Qed.

Lemma renderList_unfold n it rd :
  renderList fuel doc (S n) it rd =
  (modify (fun s => set_listids s (s_listids s ++ [it_id it])) ;;;
   open <- injectHtmlAttributes (li_listOpen (it_def it)) true ;;
   r <- renderItems fuel doc n it rd ;;
   let '(body, nextItem, rd') := r in
   pop_listid ;;;
   ret (open ++ body ++ li_listClose (it_def it), nextItem, rd')).
Proof. reflexivity. Qed.

Lemma renderListItem_single n item m s : li_item_ok item -> defaults (ienv_of s) -> pending_empty s ->
  m_groups m = [Some (li_line item); Some [mk]; Some item] ->
  renderListItem fuel doc (S (S (S n))) (mkItem m ul_def [mk]) [li_line item] s =
  Ok (($"<li>" ++ escape item ++ $"</li>", None, []), s).
Proof.
  intros Hitem Hd Hp Hg. pose proof Hitem as [_ (c & t & Ei & Hc & Hl)].
  destruct ul_facts as (Fo & Fc & Fio & Fic & Fto & Fng & _).
  rewrite renderListItem_unfold. cbv zeta. cbn [it_def it_m]. rewrite Fto. cbn [nonempty is_empty negb].
  unfold bind at 1. cbn [ret]. unfold bind at 1. rewrite Fio.
  change ($"<li>") with (60 :: $"li>"). rewrite inject_nothing_pending by exact Hp.
  unfold item_text. cbn [it_m it_def]. fold ulre. rewrite Fng. unfold grp at 1. rewrite Hg. cbn [nth].
  cbn [tl]. unfold bind at 1. rewrite itemLoop_nil.
  cbn [ret]. unfold bind at 1. unfold lift.
  rewrite (strip_item item c t Ei Hc Hl).
  pose proof (inline_item fuel' (ienv_of s) item Hd Hitem) as Hin. unfold list_expand in Hin. fold fuel in Hin. rewrite Hin.
  cbn [iret log_msgs bind ret]. rewrite Fic. rewrite app_nil_l. reflexivity.
Qed.
Lemma renderList_single n item m s L : li_item_ok item -> defaults (ienv_of s) -> pending_empty s -> s_listids s = L ->
  m_groups m = [Some (li_line item); Some [mk]; Some item] ->
  renderList fuel doc (S (S (S (S (S n))))) (mkItem m ul_def [mk]) [li_line item] s =
  Ok (($"<ul>" ++ ($"<li>" ++ escape item ++ $"</li>") ++ $"</ul>", None, []), s).
Proof.
  intros Hitem Hd Hp Hids Hg. destruct ul_facts as (Fo & Fc & _).
  rewrite renderList_unfold. cbn [it_id it_def]. unfold bind at 1. cbn [modify]. rewrite Hids.
  assert (Hp1 : pending_empty (set_listids s (L ++ [[mk]]))) by exact Hp.
  assert (Hd1 : defaults (ienv_of (set_listids s (L ++ [[mk]])))) by exact Hd.
  unfold bind at 1. rewrite Fo. change ($"<ul>") with (60 :: $"ul>"). rewrite inject_nothing_pending by exact Hp1.
  unfold bind at 1. rewrite renderItems_unfold. unfold bind at 1.
  pose proof (renderListItem_single n item m (set_listids s (L ++ [[mk]])) Hitem Hd1 Hp1 Hg) as E1.
  unfold reader, str, char in *. rewrite E1. cbn [ret].
  unfold bind at 1. unfold pop_listid. unfold bind at 1. cbn [gets s_listids set_listids].
  rewrite frev_app1. cbn [modify]. rewrite frev_frev.
  rewrite Fc. f_equal. f_equal. destruct s; cbn in *; subst; reflexivity.
Qed.

Lemma lists_render_single n item s : li_item_ok item -> defaults (ienv_of s) -> pending_empty s ->
  lists_render fuel doc (S (S (S (S (S n))))) [li_line item] s =
  Ok ((Some ($"<ul>" ++ ($"<li>" ++ escape item ++ $"</li>") ++ $"</ul>"), []), set_listids s []).
Proof.
  intros Hitem Hd Hp. destruct (li_match item Hitem) as (m & Hm & Hg).
  destruct ul_facts as (_ & _ & _ & _ & _ & Fng & _ & _ & Fdefs).
  unfold lists_render. unfold bind at 1. unfold matchItem. rewrite Fdefs. cbn [matchItem_loop]. fold ulre. rewrite Hm.
  unfold grp0, grp_s, grp. rewrite Hg. cbn [nth li_line]. rewrite mk_not_bs.
  rewrite Fng. cbn [Nat.sub nth ret].
  unfold bind at 1. cbn [modify].
  pose proof (renderList_single n item m (set_listids s []) [] Hitem Hd Hp eq_refl Hg) as E1.
  unfold bind at 1. unfold reader, str, char in *. rewrite E1.
  cbn [gets s_listids set_listids ret bind]. reflexivity.
Qed.
(* ---- two items with the same marker ---- *)
Lemma cba_item n item rest s : li_item_ok item ->
  consumeBlockAttributes fuel (S n) (li_line item :: rest) 0%Z [] s = Ok ((0%Z, [], li_line item :: rest), s).
Proof.
  intros [Hitem _]. cbn [consumeBlockAttributes]. unfold bind at 1.
  assert (Hl : lineblocks_render fuel (li_line item :: rest) lists_allowed_attrs s = Ok ((None, li_line item :: rest), s)).
  { unfold lineblocks_render.
    assert (G : forall defs, (forall d, In d defs -> re_search (l_re d) (li_line item) = None) ->
                lineblocks_loop fuel defs (li_line item :: rest) lists_allowed_attrs s = Ok ((None, li_line item :: rest), s)).
    { induction defs as [|d ds IH]; intros H; cbn [lineblocks_loop]; [reflexivity|].
      destruct (_ && _); [apply IH; intros d' Hd'; apply H; right; exact Hd'|].
      rewrite (H d (or_introl eq_refl)). apply IH. intros d' Hd'. apply H. right. exact Hd'. }
    apply G. intros d Hd. pose proof li_line_blocks as H. rewrite forallb_forall in H. specialize (H d Hd).
    unfold li_line. eapply never_matches_sound; [exact H|exact Hmk|].
    unfold li_alphabet. intros x [<-|[<-|Hx]]; apply in_or_app; [right; exact Hmk|left; vm_compute; intuition|left; auto]. }
  rewrite Hl. cbn [nonempty is_empty negb li_line]. reflexivity.
Qed.

Lemma matchItem_item item rest s : li_item_ok item ->
  exists m, m_groups m = [Some (li_line item); Some [mk]; Some item] /\
            matchItem (li_line item :: rest) s = Ok ((Some (mkItem m ul_def [mk]), li_line item :: rest), s).
Proof.
  intros Hitem. destruct (li_match item Hitem) as (m & Hm & Hg). exists m. split; [exact Hg|].
  destruct ul_facts as (_ & _ & _ & _ & _ & Fng & _ & _ & Fdefs).
  unfold matchItem. rewrite Fdefs. cbn [matchItem_loop]. fold ulre. rewrite Hm.
  unfold grp0, grp_s, grp. rewrite Hg. cbn [nth li_line]. rewrite mk_not_bs.
  rewrite Fng. cbn [Nat.sub nth ret]. reflexivity.
Qed.

Lemma renderListItem_first n item1 item2 m1 s : li_item_ok item1 -> li_item_ok item2 -> defaults (ienv_of s) -> pending_empty s ->
  s_listids s = [[mk]] -> m_groups m1 = [Some (li_line item1); Some [mk]; Some item1] ->
  exists m2, m_groups m2 = [Some (li_line item2); Some [mk]; Some item2] /\
  renderListItem fuel doc (S (S (S n))) (mkItem m1 ul_def [mk]) [li_line item1; li_line item2] s =
  Ok (($"<li>" ++ escape item1 ++ $"</li>", Some (mkItem m2 ul_def [mk]), [li_line item2]), s).
Proof.
  intros Hi1 Hi2 Hd Hp Hids Hg. pose proof Hi1 as [_ (c & t & Ei & Hc & Hl)].
  destruct (matchItem_item item2 [] s Hi2) as (m2 & Hg2 & Hm2). exists m2. split; [exact Hg2|].
  destruct ul_facts as (Fo & Fc & Fio & Fic & Fto & Fng & _).
  rewrite renderListItem_unfold. cbv zeta. cbn [it_def it_m]. rewrite Fto. cbn [nonempty is_empty negb].
  unfold bind at 1. cbn [ret]. unfold bind at 1. rewrite Fio.
  change ($"<li>") with (60 :: $"li>"). rewrite inject_nothing_pending by exact Hp.
  unfold item_text. cbn [it_m it_def]. fold ulre. rewrite Fng. unfold grp at 1. rewrite Hg. cbn [nth].
  cbn [tl]. unfold bind at 1.
  assert (Hloop : itemLoop fuel doc (S (S n)) [li_line item2] (item1 ++ [10]) [] false s =
                  Ok ((Some (mkItem m2 ul_def [mk]), [li_line item2], item1 ++ [10], [] ++ []), s)).
  { cbn [itemLoop]. unfold bind at 1. rewrite (cba_item n item2 [] s Hi2). cbn [orb Z.leb Z.eqb Z.compare].
    unfold bind at 1. unfold reader, str, char in *. rewrite Hm2. cbn [it_id].
    unfold bind at 1. cbn [gets it_id]. rewrite Hids. pose proof mk_mem as Hmm. unfold reader, str, char in Hmm. rewrite Hmm. reflexivity. }
  unfold reader, str, char in *. rewrite Hloop.
  cbn [ret]. unfold bind at 1. unfold lift.
  pose proof (strip_item item1 c t Ei Hc Hl) as Hs. unfold reader, str, char in Hs. rewrite Hs.
  pose proof (inline_item fuel' (ienv_of s) item1 Hd Hi1) as Hin. unfold list_expand in Hin. fold fuel in Hin.
  unfold reader, str, char in Hin. rewrite Hin.
  cbn [iret log_msgs bind ret]. rewrite Fic. rewrite app_nil_l. reflexivity.
Qed.

Lemma renderList_two n item1 item2 m1 s : li_item_ok item1 -> li_item_ok item2 -> defaults (ienv_of s) -> pending_empty s ->
  s_listids s = [] -> m_groups m1 = [Some (li_line item1); Some [mk]; Some item1] ->
  renderList fuel doc (S (S (S (S (S (S n)))))) (mkItem m1 ul_def [mk]) [li_line item1; li_line item2] s =
  Ok (($"<ul>" ++ (($"<li>" ++ escape item1 ++ $"</li>") ++ ($"<li>" ++ escape item2 ++ $"</li>")) ++ $"</ul>", None, []), s).
Proof.
  intros Hi1 Hi2 Hd Hp Hids Hg. destruct ul_facts as (Fo & Fc & _).
  rewrite renderList_unfold. cbn [it_id it_def]. unfold bind at 1. cbn [modify]. rewrite Hids. cbn [app].
  assert (Hp1 : pending_empty (set_listids s [[mk]])) by exact Hp.
  assert (Hd1 : defaults (ienv_of (set_listids s [[mk]]))) by exact Hd.
  unfold bind at 1. rewrite Fo. change ($"<ul>") with (60 :: $"ul>"). rewrite inject_nothing_pending by exact Hp1.
  unfold bind at 1. rewrite renderItems_unfold. unfold bind at 1.
  destruct (renderListItem_first (S n) item1 item2 m1 (set_listids s [[mk]]) Hi1 Hi2 Hd1 Hp1 eq_refl Hg) as (m2 & Hg2 & E1).
  unfold reader, str, char in *. rewrite E1. cbn [it_id]. pose proof mk_eqb_refl as Hee. unfold reader, str, char in Hee. rewrite Hee.
  unfold bind at 1. rewrite renderItems_unfold. unfold bind at 1.
  pose proof (renderListItem_single n item2 m2 (set_listids s [[mk]]) Hi2 Hd1 Hp1 Hg2) as E2.
  unfold reader, str, char in *. rewrite E2. cbn [ret].
  unfold bind at 1. unfold pop_listid. unfold bind at 1. cbn [gets s_listids set_listids frev rev_append modify].
  rewrite Fc. f_equal. f_equal. destruct s; cbn in *; subst; reflexivity.
Qed.

Lemma lists_render_two n item1 item2 s : li_item_ok item1 -> li_item_ok item2 -> defaults (ienv_of s) -> pending_empty s ->
  lists_render fuel doc (S (S (S (S (S (S n)))))) [li_line item1; li_line item2] s =
  Ok ((Some ($"<ul>" ++ (($"<li>" ++ escape item1 ++ $"</li>") ++ ($"<li>" ++ escape item2 ++ $"</li>")) ++ $"</ul>"), []), set_listids s []).
Proof.
  intros Hi1 Hi2 Hd Hp. destruct (matchItem_item item1 [li_line item2] s Hi1) as (m1 & Hg1 & Hm1).
  unfold lists_render. unfold bind at 1. unfold reader, str, char in *. rewrite Hm1.
  unfold bind at 1. cbn [modify]. unfold bind at 1.
  pose proof (renderList_two n item1 item2 m1 (set_listids s []) Hi1 Hi2 Hd Hp eq_refl Hg1) as E1.
  unfold reader, str, char in *. rewrite E1.
  cbn [gets s_listids set_listids ret bind]. reflexivity.
Qed.
End ListRun.

(* ---- the document ---- *)
Lemma li_reader item : li_item_ok item -> mk_reader (li_line item) = [li_line item].
Proof.
  intros [Hitem _]. rewrite mk_reader_spec.
  assert (Hch : forall x, In x (li_line item) -> is_nl x = false /\ reserved x = false).
  { intros x [<-|[<-|Hx]]; [destruct mk_cases as [-> | ->]; split; reflexivity|split; reflexivity|]. apply Hitem in Hx.
    pose proof safe_no_special as F. rewrite forallb_forall in F. apply F in Hx. apply andb_prop in Hx as [H1 H2].
    apply negb_true_iff in H1, H2. auto. }
  assert (Hb : blank_reserved (li_line item) = li_line item).
  { unfold blank_reserved. rewrite <- (map_id (li_line item)) at 2. apply map_ext_in. intros x Hx.
    destruct (Hch x Hx) as [_ Hr]. unfold reserved in Hr. rewrite Hr. reflexivity. }
  rewrite Hb. unfold split_lines.
  pose proof (split_aux_prefix (li_line item) [] [] (fun x Hx => proj1 (Hch x Hx))) as E. rewrite app_nil_r in E. rewrite E.
  cbn [split_lines_aux]. rewrite split_aux_nil_cur_frev. reflexivity.
Qed.

Lemma doc_loop_list_block fuel doc n rd l t rd1 out rd2 s s1 s2 :
  skipBlankLines rd = l :: t ->
  lineblocks_render fuel (l :: t) [] s = Ok ((None, rd1), s1) ->
  lists_render fuel doc n rd1 s1 = Ok ((Some out, rd2), s2) ->
  doc_loop fuel doc (S n) rd s =
  match doc_loop fuel doc n rd2 s2 with
  | Ok (rest, s3) => Ok (out ++ rest, s3)
  | Raise e => Raise e
  | Fuel => Fuel
  end.
Proof.
  intros Hs Hl Hli. cbn [doc_loop]. rewrite Hs. unfold bind at 1. rewrite Hl. unfold bind at 1. rewrite Hli. unfold bind, ret.
  destruct (doc_loop fuel doc n rd2 s2) as [[rest s3]| |]; reflexivity.
Qed.

Theorem single_item_list_document n item s : quiet_default s -> li_item_ok item ->
  doc_render (S (S (S (S (S (S (S n))))))) (li_line item) s =
  Ok ($"<ul><li>" ++ escape item ++ $"</li></ul>", set_listids s []).
Proof.
  intros Hq Hitem. pose proof Hq as (Hd & Hr & Hqt & Hp & Ho).
  change (doc_render (S (S (S (S (S (S (S n))))))) (li_line item)) with
    (doc_loop (S (S (S (S (S (S n)))))) (doc_render (S (S (S (S (S (S n))))))) (S (S (S (S (S (S n)))))) (mk_reader (li_line item))).
  rewrite (li_reader item Hitem).
  rewrite (doc_loop_list_block _ _ (S (S (S (S (S n))))) [li_line item] (li_line item) [] [li_line item]
             ($"<ul>" ++ ($"<li>" ++ escape item ++ $"</li>") ++ $"</ul>") [] s s (set_listids s [])).
  - rewrite (TableFacts.doc_loop_blank_only _ _ (S (S (S (S n)))) [] (set_listids s [])) by reflexivity.
    rewrite app_nil_r. cbn [app]. rewrite <- !app_assoc. reflexivity.
  - unfold li_line. cbn [skipBlankLines]. rewrite strip_nonblank; [reflexivity|destruct mk_cases as [-> | ->]; reflexivity].
  - apply li_stage_line. exact Hitem.
  - apply (lists_render_single (S (S (S n))) _ n item s Hitem (quiet_defaults s Hq) Hp).
Qed.

(* ---- two items ---- *)
Lemma li_line_chars item : li_item_ok item -> forall x, In x (li_line item) -> is_nl x = false /\ reserved x = false.
Proof.
  intros [Hitem _] x [<-|[<-|Hx]]; [destruct mk_cases as [-> | ->]; split; reflexivity|split; reflexivity|]. apply Hitem in Hx.
  pose proof safe_no_special as F. rewrite forallb_forall in F. apply F in Hx. apply andb_prop in Hx as [H1 H2].
  apply negb_true_iff in H1, H2. auto.
Qed.

Lemma li_reader2 item1 item2 : li_item_ok item1 -> li_item_ok item2 ->
  mk_reader (li_line item1 ++ 10 :: li_line item2) = [li_line item1; li_line item2].
Proof.
  intros H1 H2. rewrite mk_reader_spec.
  assert (Hb : blank_reserved (li_line item1 ++ 10 :: li_line item2) = li_line item1 ++ 10 :: li_line item2).
  { unfold blank_reserved. rewrite <- (map_id (li_line item1 ++ 10 :: li_line item2)) at 2. apply map_ext_in. intros x Hx.
    assert (Hr : reserved x = false).
    { apply in_app_or in Hx as [Hx|[<-|Hx]]; [apply (li_line_chars item1 H1 x Hx)|reflexivity|apply (li_line_chars item2 H2 x Hx)]. }
    unfold reserved in Hr. rewrite Hr. reflexivity. }
  rewrite Hb. unfold split_lines.
  rewrite (split_aux_prefix (li_line item1) (10 :: li_line item2) [] (fun x Hx => proj1 (li_line_chars item1 H1 x Hx))).
  cbn [split_lines_aux]. rewrite split_aux_nil_cur_frev.
  pose proof (split_aux_prefix (li_line item2) [] [] (fun x Hx => proj1 (li_line_chars item2 H2 x Hx))) as E. rewrite app_nil_r in E.
  rewrite E. cbn [split_lines_aux]. rewrite split_aux_nil_cur_frev. reflexivity.
Qed.

Theorem two_item_list_document n item1 item2 s : quiet_default s -> li_item_ok item1 -> li_item_ok item2 ->
  doc_render (S (S (S (S (S (S (S (S n)))))))) (li_line item1 ++ 10 :: li_line item2) s =
  Ok ($"<ul><li>" ++ escape item1 ++ $"</li><li>" ++ escape item2 ++ $"</li></ul>", set_listids s []).
Proof.
  intros Hq Hi1 Hi2. pose proof Hq as (Hd & Hr & Hqt & Hp & Ho).
  change (doc_render (S (S (S (S (S (S (S (S n)))))))) (li_line item1 ++ 10 :: li_line item2)) with
    (doc_loop (S (S (S (S (S (S (S n))))))) (doc_render (S (S (S (S (S (S (S n)))))))) (S (S (S (S (S (S (S n)))))))
       (mk_reader (li_line item1 ++ 10 :: li_line item2))).
  rewrite (li_reader2 item1 item2 Hi1 Hi2).
  rewrite (doc_loop_list_block _ _ (S (S (S (S (S (S n)))))) [li_line item1; li_line item2] (li_line item1) [li_line item2]
             [li_line item1; li_line item2]
             ($"<ul>" ++ (($"<li>" ++ escape item1 ++ $"</li>") ++ ($"<li>" ++ escape item2 ++ $"</li>")) ++ $"</ul>") [] s s (set_listids s [])).
  - rewrite (TableFacts.doc_loop_blank_only _ _ (S (S (S (S (S n))))) [] (set_listids s [])) by reflexivity.
    rewrite app_nil_r. cbn [app]. rewrite <- !app_assoc. cbn [app]. reflexivity.
  - unfold li_line at 1. cbn [skipBlankLines]. rewrite strip_nonblank; [reflexivity|destruct mk_cases as [-> | ->]; reflexivity].
  - pose proof (li_stage_line_rest (S (S (S (S (S (S (S n))))))) item1 [li_line item2] s Hi1) as E. exact E.
  - apply (lists_render_two (S (S (S (S n)))) _ n item1 item2 s Hi1 Hi2 (quiet_defaults s Hq) Hp).
Qed.

End Marker.

(* ---- a different marker opens a child list ---- *)
Lemma markers_mem_ne mk1 mk2 : In mk1 markers -> In mk2 markers -> mk1 <> mk2 -> mem [mk2] [[mk1]] = false.
Proof.
  intros [<-|[<-|[]]] [<-|[<-|[]]] H; try reflexivity; congruence.
Qed.

Section Nested.
Variables mk1 mk2 : char.
Hypothesis H1 : In mk1 markers.
Hypothesis H2 : In mk2 markers.
Hypothesis Hne : mk1 <> mk2.
Variable fuel' : nat.
Let fuel := S (S (S fuel')).
Variable doc : str -> M str.

Definition child_html (item2 : str) : str := $"<ul>" ++ ($"<li>" ++ escape item2 ++ $"</li>") ++ $"</ul>".

Lemma renderListItem_parent n item1 item2 m1 s : li_item_ok item1 -> li_item_ok item2 -> defaults (ienv_of s) -> pending_empty s ->
  s_listids s = [[mk1]] -> m_groups m1 = [Some (li_line mk1 item1); Some [mk1]; Some item1] ->
  renderListItem (S (S (S fuel'))) doc (S (S (S (S (S (S (S n))))))) (mkItem m1 ul_def [mk1]) [li_line mk1 item1; li_line mk2 item2] s =
  Ok (($"<li>" ++ escape item1 ++ child_html item2 ++ $"</li>", None, []), s).
Proof.
  intros Hi1 Hi2 Hd Hp Hids Hg. pose proof Hi1 as [_ (c & t & Ei & Hc & Hl)].
  destruct (matchItem_item mk2 H2 item2 [] s Hi2) as (m2 & Hg2 & Hm2).
  destruct ul_facts as (Fo & Fc & Fio & Fic & Fto & Fng & _).
  rewrite renderListItem_unfold. cbv zeta. cbn [it_def it_m]. rewrite Fto. cbn [nonempty is_empty negb].
  unfold bind at 1. cbn [ret]. unfold bind at 1. rewrite Fio.
  change ($"<li>") with (60 :: $"li>"). rewrite inject_nothing_pending by exact Hp.
  unfold item_text. cbn [it_m it_def]. fold ulre. rewrite Fng. unfold grp at 1. rewrite Hg. cbn [nth].
  cbn [tl]. unfold bind at 1.
  assert (Hloop : itemLoop (S (S (S fuel'))) doc (S (S (S (S (S (S n)))))) [li_line mk2 item2] (item1 ++ [10]) [] false s =
                  Ok ((None, [], item1 ++ [10], ([] ++ []) ++ child_html item2), s)).
  { rewrite itemLoop_unfold. unfold bind at 1. rewrite (cba_item mk2 H2 fuel' doc (S (S (S (S n)))) item2 [] s Hi2). cbv zeta. cbn [orb Z.leb Z.eqb Z.compare app].
    unfold bind at 1. unfold reader, str, char in *. rewrite Hm2. cbn [it_id].
    unfold bind at 1. cbn [gets]. rewrite Hids.
    pose proof (markers_mem_ne mk1 mk2 H1 H2 Hne) as Hmm. unfold reader, str, char in Hmm. rewrite Hmm.
    unfold bind at 1.
    pose proof (renderList_single mk2 fuel' doc n item2 m2 s [[mk1]] Hi2 Hd Hp Hids Hg2) as E. fold (child_html item2) in E.
    unfold reader, str, char in E. rewrite E. reflexivity. }
  unfold reader, str, char in *. rewrite Hloop.
  cbn [ret]. unfold bind at 1. unfold lift.
  pose proof (strip_item item1 c t Ei Hc Hl) as Hs. unfold reader, str, char in Hs. rewrite Hs.
  pose proof (inline_item fuel' (ienv_of s) item1 Hd Hi1) as Hin. unfold list_expand in Hin.
  unfold reader, str, char in Hin. rewrite Hin.
  cbn [iret log_msgs bind ret]. rewrite Fic. rewrite !app_nil_l. reflexivity.
Qed.

Lemma renderList_parent n item1 item2 m1 s : li_item_ok item1 -> li_item_ok item2 -> defaults (ienv_of s) -> pending_empty s ->
  s_listids s = [] -> m_groups m1 = [Some (li_line mk1 item1); Some [mk1]; Some item1] ->
  renderList (S (S (S fuel'))) doc (S (S (S (S (S (S (S (S (S n))))))))) (mkItem m1 ul_def [mk1]) [li_line mk1 item1; li_line mk2 item2] s =
  Ok (($"<ul>" ++ ($"<li>" ++ escape item1 ++ child_html item2 ++ $"</li>") ++ $"</ul>", None, []), s).
Proof.
  intros Hi1 Hi2 Hd Hp Hids Hg. destruct ul_facts as (Fo & Fc & _).
  rewrite renderList_unfold. cbn [it_id it_def]. unfold bind at 1. cbn [modify]. rewrite Hids. cbn [app].
  assert (Hp1 : pending_empty (set_listids s [[mk1]])) by exact Hp.
  assert (Hd1 : defaults (ienv_of (set_listids s [[mk1]]))) by exact Hd.
  unfold bind at 1. rewrite Fo. change ($"<ul>") with (60 :: $"ul>"). rewrite inject_nothing_pending by exact Hp1.
  unfold bind at 1. rewrite renderItems_unfold. unfold bind at 1.
  pose proof (renderListItem_parent n item1 item2 m1 (set_listids s [[mk1]]) Hi1 Hi2 Hd1 Hp1 eq_refl Hg) as E1.
  unfold reader, str, char in *. rewrite E1. cbn [ret].
  unfold bind at 1. unfold pop_listid. unfold bind at 1. cbn [gets s_listids set_listids frev rev_append modify].
  rewrite Fc. f_equal. f_equal. destruct s; cbn in *; subst; reflexivity.
Qed.

Lemma lists_render_nested n item1 item2 s : li_item_ok item1 -> li_item_ok item2 -> defaults (ienv_of s) -> pending_empty s ->
  lists_render (S (S (S fuel'))) doc (S (S (S (S (S (S (S (S (S n))))))))) [li_line mk1 item1; li_line mk2 item2] s =
  Ok ((Some ($"<ul>" ++ ($"<li>" ++ escape item1 ++ child_html item2 ++ $"</li>") ++ $"</ul>"), []), set_listids s []).
Proof.
  intros Hi1 Hi2 Hd Hp. destruct (matchItem_item mk1 H1 item1 [li_line mk2 item2] s Hi1) as (m1 & Hg1 & Hm1).
  unfold lists_render. unfold bind at 1. unfold reader, str, char in *. rewrite Hm1.
  unfold bind at 1. cbn [modify]. unfold bind at 1.
  pose proof (renderList_parent n item1 item2 m1 (set_listids s []) Hi1 Hi2 Hd Hp eq_refl Hg1) as E1.
  unfold reader, str, char in *. rewrite E1.
  cbn [gets s_listids set_listids ret bind]. reflexivity.
Qed.
End Nested.

Lemma li_reader_two mk1 mk2 item1 item2 : In mk1 markers -> In mk2 markers -> li_item_ok item1 -> li_item_ok item2 ->
  mk_reader (li_line mk1 item1 ++ 10 :: li_line mk2 item2) = [li_line mk1 item1; li_line mk2 item2].
Proof.
  intros M1 M2 H1 H2. rewrite mk_reader_spec.
  assert (Hb : blank_reserved (li_line mk1 item1 ++ 10 :: li_line mk2 item2) = li_line mk1 item1 ++ 10 :: li_line mk2 item2).
  { unfold blank_reserved. rewrite <- (map_id (li_line mk1 item1 ++ 10 :: li_line mk2 item2)) at 2. apply map_ext_in. intros x Hx.
    assert (Hr : reserved x = false).
    { apply in_app_or in Hx as [Hx|[<-|Hx]]; [apply (li_line_chars mk1 M1 item1 H1 x Hx)|reflexivity|apply (li_line_chars mk2 M2 item2 H2 x Hx)]. }
    unfold reserved in Hr. rewrite Hr. reflexivity. }
  rewrite Hb. unfold split_lines.
  rewrite (split_aux_prefix (li_line mk1 item1) (10 :: li_line mk2 item2) [] (fun x Hx => proj1 (li_line_chars mk1 M1 item1 H1 x Hx))).
  cbn [split_lines_aux]. rewrite split_aux_nil_cur_frev.
  pose proof (split_aux_prefix (li_line mk2 item2) [] [] (fun x Hx => proj1 (li_line_chars mk2 M2 item2 H2 x Hx))) as E. rewrite app_nil_r in E.
  rewrite E. cbn [split_lines_aux]. rewrite split_aux_nil_cur_frev. reflexivity.
Qed.

Theorem nested_list_document n mk1 mk2 item1 item2 s : In mk1 markers -> In mk2 markers -> mk1 <> mk2 ->
  quiet_default s -> li_item_ok item1 -> li_item_ok item2 ->
  doc_render (S (S (S (S (S (S (S (S (S (S (S n))))))))))) (li_line mk1 item1 ++ 10 :: li_line mk2 item2) s =
  Ok ($"<ul><li>" ++ escape item1 ++ $"<ul><li>" ++ escape item2 ++ $"</li></ul></li></ul>", set_listids s []).
Proof.
  intros M1 M2 Hne Hq Hi1 Hi2. pose proof Hq as (Hd & Hr & Hqt & Hp & Ho).
  change (doc_render (S (S (S (S (S (S (S (S (S (S (S n))))))))))) (li_line mk1 item1 ++ 10 :: li_line mk2 item2)) with
    (doc_loop (S (S (S (S (S (S (S (S (S (S n)))))))))) (doc_render (S (S (S (S (S (S (S (S (S (S n))))))))))) (S (S (S (S (S (S (S (S (S (S n))))))))))
       (mk_reader (li_line mk1 item1 ++ 10 :: li_line mk2 item2))).
  rewrite (li_reader_two mk1 mk2 item1 item2 M1 M2 Hi1 Hi2).
  rewrite (doc_loop_list_block _ _ (S (S (S (S (S (S (S (S (S n))))))))) [li_line mk1 item1; li_line mk2 item2] (li_line mk1 item1) [li_line mk2 item2]
             [li_line mk1 item1; li_line mk2 item2]
             ($"<ul>" ++ ($"<li>" ++ escape item1 ++ child_html item2 ++ $"</li>") ++ $"</ul>") [] s s (set_listids s [])).
  - rewrite (TableFacts.doc_loop_blank_only _ _ (S (S (S (S (S (S (S (S n)))))))) [] (set_listids s [])) by reflexivity.
    rewrite app_nil_r. unfold child_html. cbn [app]. repeat (rewrite <- app_assoc; cbn [app]). reflexivity.
  - unfold li_line at 1. cbn [skipBlankLines]. rewrite strip_nonblank; [reflexivity|destruct (mk_cases mk1 M1) as [-> | ->]; reflexivity].
  - apply (li_stage_line_rest mk1 M1).  exact Hi1.
  - apply (lists_render_nested mk1 mk2 M1 M2 Hne (S (S (S (S (S (S (S n))))))) _ n item1 item2 s Hi1 Hi2 (quiet_defaults s Hq) Hp).
Qed.

(* ---- the same through rimu.render, whatever the option values of the call do to the session first ---- *)
Lemma dash_in : In dash markers.
Proof. left. reflexivity. Qed.
Lemma plus_in : In plus markers.
Proof. right. left. reflexivity. Qed.

Corollary single_item_list_api n mk item o s s1 : In mk markers ->
  updateFrom o (if (s_mode s =? -1)%Z then document_init s else s) = Ok (tt, s1) -> quiet_default s1 -> li_item_ok item ->
  api_render (S (S (S (S (S (S (S n))))))) (li_line mk item) o s = Ok ($"<ul><li>" ++ escape item ++ $"</li></ul>", set_listids s1 []).
Proof. intros Hmk Hu Hq Hi. eapply api_of_doc; [exact Hu|]. apply single_item_list_document; assumption. Qed.

(* Fuel is only a termination device: a computation that returns (a value or a failure) with some fuel returns the same
   with any larger fuel.  Hence every statement "for every fuel" speaks about one result per input, and the fuel the
   correspondence driver runs with does not matter once it suffices. *)
From Rimu Require Import Base Regex RegexParse Str Types Tables Guards State Inline Block.
From Coq Require Import Lia.
Local Open Scope monad_scope.

Definition le_res {A} (x y : Res A) : Prop := x = Fuel \/ x = y.

Lemma le_refl {A} (x : Res A) : le_res x x.
Proof. right. reflexivity. Qed.
Lemma le_fuel {A} (y : Res A) : le_res Fuel y.
Proof. left. reflexivity. Qed.
Lemma le_trans {A} (x y z : Res A) : le_res x y -> le_res y z -> le_res x z.
Proof. intros [-> | ->]; [intros _; apply le_fuel|auto]. Qed.

(* ---- inline monad ---- *)
Lemma ile_bind {A B} (m m' : I A) (f f' : A -> I B) : le_res m m' -> (forall a, le_res (f a) (f' a)) -> le_res (ibind m f) (ibind m' f').
Proof.
  intros [-> | ->] Hf; [left; reflexivity|]. unfold ibind. destruct m' as [[a l]|e|]; [|apply le_refl|apply le_refl].
  destruct (Hf a) as [E|E]; rewrite E; [left; reflexivity|apply le_refl].
Qed.

Lemma ile_imapM {A B} (f f' : A -> I B) l : (forall a, le_res (f a) (f' a)) -> le_res (imapM f l) (imapM f' l).
Proof.
  intros Hf. induction l as [|x l IH]; cbn [imapM]; [apply le_refl|].
  apply ile_bind; [apply Hf|]. intros y. apply ile_bind; [exact IH|]. intros ys. apply le_refl.
Qed.

Lemma ile_iconcat_map {A B} (f f' : A -> I (list B)) l : (forall a, le_res (f a) (f' a)) -> le_res (iconcat_map f l) (iconcat_map f' l).
Proof.
  intros Hf. induction l as [|x l IH]; cbn [iconcat_map]; [apply le_refl|].
  apply ile_bind; [apply Hf|]. intros y. apply ile_bind; [exact IH|]. intros ys. apply le_refl.
Qed.

Lemma ile_isub r (f f' : mres -> I str) s : (forall m, le_res (f m) (f' m)) -> le_res (isub r f s) (isub r f' s).
Proof.
  intros Hf. unfold isub. destruct (re_scan r s) as [l tl]. apply ile_bind; [|intros; apply le_refl].
  apply ile_imapM. intros bm. apply ile_bind; [apply Hf|]. intros; apply le_refl.
Qed.

Lemma ile_of_res {A} (x y : Res A) : le_res x y -> le_res (of_res x) (of_res y).
Proof. intros [-> | ->]; [left; reflexivity|apply le_refl]. Qed.

Ltac imono :=
  repeat first
    [ match goal with |- le_res ?a ?a => apply le_refl end
    | match goal with |- le_res Fuel _ => apply le_fuel end
    | match goal with |- le_res (ibind _ _) (ibind _ _) => apply ile_bind; [|intro] end
    | match goal with |- le_res (isub _ _ _) (isub _ _ _) => apply ile_isub; intro end
    | match goal with |- le_res (imapM _ _) (imapM _ _) => apply ile_imapM; intro end
    | match goal with |- le_res (iconcat_map _ _) (iconcat_map _ _) => apply ile_iconcat_map; intro end
    | match goal with |- le_res (of_res _) (of_res _) => apply ile_of_res end
    | match goal with
      | |- le_res (if ?b then _ else _) (if ?b then _ else _) => destruct b
      | |- le_res (match ?x with _ => _ end) (match ?x with _ => _ end) => destruct x
      | |- le_res (let '(_, _) := ?x in _) (let '(_, _) := ?x in _) => destruct x
      end
    | match goal with H : forall t, le_res (?g t) (?g' t) |- le_res (?g _) (?g' _) => apply H end ].

Section InlineMono.
Variables mr mr' sr sr' : str -> I str.
Hypothesis Hmr : forall t, le_res (mr t) (mr' t).
Hypothesis Hsr : forall t, le_res (sr t) (sr' t).

Lemma mono_replaceInline t e : le_res (replaceInline mr sr t e) (replaceInline mr' sr' t e).
Proof. unfold replaceInline. imono. Qed.

Lemma mono_replaceMatch_segs m ng : forall segs e, le_res (replaceMatch_segs mr sr m ng segs e) (replaceMatch_segs mr' sr' m ng segs e).
Proof.
  induction segs as [|[b dm] t IH]; intros e; cbn [replaceMatch_segs]; [apply le_refl|].
  apply ile_bind.
  - destruct (Nat.ltb ng _); [apply le_refl|]. apply ile_bind; [apply mono_replaceInline|]. intros; apply le_refl.
  - intros x. apply ile_bind; [apply IH|]. intros; apply le_refl.
Qed.

Lemma mono_replaceMatch m ng repl e : le_res (replaceMatch mr sr m ng repl e) (replaceMatch mr' sr' m ng repl e).
Proof. unfold replaceMatch. destruct (re_scan _ repl). apply ile_bind; [apply mono_replaceMatch_segs|]. intros; apply le_refl. Qed.
End InlineMono.

Section MacrosMono.
Variable s : ienv.
Variables sr sr' : str -> I str.
Hypothesis Hsr : forall t, le_res (sr t) (sr' t).

Lemma mono_param_repl params m : le_res (param_repl sr params m) (param_repl sr' params m).
Proof. unfold param_repl. imono. Qed.

Lemma mono_macro_repl text silent simple m : le_res (macro_repl sr s text silent simple m) (macro_repl sr' s text silent simple m).
Proof.
  unfold macro_repl. destruct (starts_with [92] (grp0 m)); [apply le_refl|].
  destruct (starts_with [63] (grp_s m 2)); [apply le_refl|]. destruct (getValue s (grp_s m 1)); [|apply le_refl].
  destruct simple; [apply le_refl|]. destruct (replace_all _ _ _) as [|c t]; [apply le_refl|].
  destruct (c =? 124); [apply ile_isub; intros; apply mono_param_repl|]. apply le_refl.
Qed.

Lemma mono_macros_render text silent : le_res (macros_render sr s text silent) (macros_render sr' s text silent).
Proof.
  unfold macros_render. apply ile_bind; [apply ile_isub; intros; apply mono_macro_repl|]. intros r1.
  apply ile_bind; [apply ile_isub; intros; apply mono_macro_repl|]. intros; apply le_refl.
Qed.
End MacrosMono.

(* ---- spans ---- *)
Lemma mono_find_quote qre text : forall n m idx, (n <= m)%nat -> le_res (find_quote n qre text idx) (find_quote m qre text idx).
Proof.
  induction n as [|n IH]; intros m idx H; [apply le_fuel|]. destruct m as [|m]; [lia|]. cbn [find_quote].
  destruct (re_search_pos qre text idx) as [mm|]; [|apply le_refl]. destruct (starts_with _ _); [apply IH; lia|apply le_refl].
Qed.

Lemma le_res_match {A B} (x y : Res A) (f g : Res A -> Res B) :
  le_res x y -> f Fuel = Fuel -> (forall z, le_res (f z) (g z)) -> le_res (f x) (g y).
Proof. intros [-> | ->] Hf H; [left; exact Hf|apply H]. Qed.

Lemma mono_fragQuote qs qre : forall n m text, (n <= m)%nat -> le_res (fragQuote n qs qre text) (fragQuote m qs qre text).
Proof.
  induction n as [|n IH]; intros m text H; [apply le_fuel|]. destruct m as [|m]; [lia|]. cbn [fragQuote].
  pose proof (mono_find_quote qre text n m 0 ltac:(lia)) as [E|E]; rewrite E; [apply le_fuel|].
  destruct (find_quote m qre text 0) as [[mm|]|e|]; try apply le_refl.
  destruct (quote_getDefinition qs (grp_s mm 1)) as [d|]; [|apply le_refl]. cbv zeta.
  destruct (negb (q_spans d)).
  - pose proof (IH m (snd (count_lead (hd 0 (grp_s mm 1)) (dropN (m_end mm) text))) ltac:(lia)) as [E2|E2]; rewrite E2; [apply le_fuel|apply le_refl].
  - pose proof (IH m (grp_s mm 2 ++ takeN (fst (count_lead (hd 0 (grp_s mm 1)) (dropN (m_end mm) text))) (dropN (m_end mm) text)) ltac:(lia)) as [E1|E1];
      rewrite E1; [apply le_fuel|].
    destruct (fragQuote m qs qre (grp_s mm 2 ++ _)) as [mid|e|]; try apply le_refl.
    pose proof (IH m (snd (count_lead (hd 0 (grp_s mm 1)) (dropN (m_end mm) text))) ltac:(lia)) as [E2|E2]; rewrite E2; [apply le_fuel|apply le_refl].
Qed.

Lemma mono_res_concat_map {A B} (f f' : A -> Res (list B)) l : (forall a, le_res (f a) (f' a)) ->
  le_res (res_concat_map f l) (res_concat_map f' l).
Proof.
  intros Hf. induction l as [|x l IH]; cbn [res_concat_map]; [apply le_refl|].
  destruct (Hf x) as [E|E]; rewrite E; [apply le_fuel|]. destruct (f' x) as [a|e|]; try apply le_refl.
  destruct IH as [E2|E2]; rewrite E2; [apply le_fuel|apply le_refl].
Qed.

Lemma mono_fragQuotes qs frags n m : (n <= m)%nat -> le_res (fragQuotes n qs frags) (fragQuotes m qs frags).
Proof.
  intros H. unfold fragQuotes.
  pose proof (mono_res_concat_map (fun f => if f_done f then Ok [f] else fragQuote n qs (quotesRe qs) (f_text f))
                                  (fun f => if f_done f then Ok [f] else fragQuote m qs (quotesRe qs) (f_text f)) frags) as [E|E].
  { intros f. destruct (f_done f); [apply le_refl|apply mono_fragQuote; exact H]. }
  - rewrite E. apply le_fuel.
  - rewrite E. apply le_refl.
Qed.

Section SpansMono.
Variable s : ienv.
Variables sr sr' : str -> I str.
Hypothesis Hsr : forall t, le_res (sr t) (sr' t).

Lemma mono_replacement_text d m : le_res (replacement_text s sr d m) (replacement_text s sr' d m).
Proof.
  unfold replacement_text. destruct (starts_with [92] (grp0 m)); [apply le_refl|].
  destruct (r_filter d); try apply le_refl.
  - apply mono_replaceMatch; [intros; apply le_refl|exact Hsr].
  - destruct (skipBlockAttributes _); [apply le_refl|]. apply mono_replaceMatch; [intros; apply le_refl|exact Hsr].
Qed.

Lemma mono_fragReplacement d : forall n m text, (n <= m)%nat -> le_res (fragReplacement s sr n d text) (fragReplacement s sr' m d text).
Proof.
  induction n as [|n IH]; intros m text H; [apply le_fuel|]. destruct m as [|m]; [lia|]. cbn [fragReplacement].
  destruct (re_search (r_re d) text) as [mm|]; [|apply le_refl].
  apply ile_bind; [apply mono_replacement_text|]. intros rep. apply ile_bind; [apply IH; lia|]. intros; apply le_refl.
Qed.

Lemma mono_fragReplacements n m : (n <= m)%nat -> forall defs frags,
  le_res (fragReplacements s sr n defs frags) (fragReplacements s sr' m defs frags).
Proof.
  intros H. induction defs as [|d ds IH]; intros frags; cbn [fragReplacements]; [apply le_refl|].
  apply ile_bind; [|intros; apply IH]. apply ile_iconcat_map. intros f. destruct (f_done f); [apply le_refl|apply mono_fragReplacement; exact H].
Qed.

Lemma mono_spans_body n m src : (n <= m)%nat -> le_res (spans_body s sr n src) (spans_body s sr' m src).
Proof.
  intros H. unfold spans_body. apply ile_bind; [apply mono_fragReplacements; exact H|]. intros frags.
  apply ile_bind; [apply ile_of_res, mono_fragQuotes; exact H|]. intros; apply le_refl.
Qed.
End SpansMono.

Theorem mono_spans_render s : forall n m src, (n <= m)%nat -> le_res (spans_render n s src) (spans_render m s src).
Proof.
  induction n as [|n IH]; intros m src H; [apply le_fuel|]. destruct m as [|m]; [lia|]. cbn [spans_render].
  apply mono_spans_body; [intros t; apply IH; lia|lia].
Qed.

Lemma mono_macros_render_top s n m t silent : (n <= m)%nat -> le_res (macros_render_top n s t silent) (macros_render_top m s t silent).
Proof. intros H. unfold macros_render_top. apply mono_macros_render. intros; apply mono_spans_render; exact H. Qed.

Lemma mono_replaceInline_top s n m t e : (n <= m)%nat -> le_res (replaceInline_top n s t e) (replaceInline_top m s t e).
Proof.
  intros H. unfold replaceInline_top. apply mono_replaceInline; intros; [apply mono_macros_render_top|apply mono_spans_render]; exact H.
Qed.

Lemma mono_replaceMatch_top s n m mm ng repl e : (n <= m)%nat -> le_res (replaceMatch_top n s mm ng repl e) (replaceMatch_top m s mm ng repl e).
Proof.
  intros H. unfold replaceMatch_top. apply mono_replaceMatch; intros; [apply mono_macros_render_top|apply mono_spans_render]; exact H.
Qed.

(* ---- block monad ---- *)
Definition mle {A} (m m' : M A) : Prop := forall s, le_res (m s) (m' s).

Lemma mle_refl {A} (m : M A) : mle m m.
Proof. intros s. apply le_refl. Qed.
Lemma mle_fuel {A} (m : M A) : mle out_of_fuel m.
Proof. intros s. apply le_fuel. Qed.
Lemma mle_bind {A B} (m m' : M A) (f f' : A -> M B) : mle m m' -> (forall a, mle (f a) (f' a)) -> mle (bind m f) (bind m' f').
Proof.
  intros Hm Hf s. unfold bind. destruct (Hm s) as [E|E]; rewrite E; [apply le_fuel|].
  destruct (m' s) as [[a s1]|e|]; [apply Hf|apply le_refl|apply le_refl].
Qed.
Lemma mle_lift {A} (f f' : ienv -> I A) : (forall e, le_res (f e) (f' e)) -> mle (lift f) (lift f').
Proof. intros H s. unfold lift. destruct (H (ienv_of s)) as [E|E]; rewrite E; [apply le_fuel|apply le_refl]. Qed.

Ltac mmono :=
  repeat first
    [ match goal with |- mle ?a ?a => apply mle_refl end
    | match goal with |- mle out_of_fuel _ => apply mle_fuel end
    | match goal with |- mle (bind _ _) (bind _ _) => apply mle_bind; [|intro] end
    | match goal with |- mle (lift _) (lift _) =>
        apply mle_lift; intro; first [apply mono_replaceInline_top | apply mono_replaceMatch_top | apply mono_macros_render_top]; assumption end
    | match goal with
      | |- mle (if ?b then _ else _) (if ?b then _ else _) => destruct b
      | |- mle (match ?x with _ => _ end) (match ?x with _ => _ end) => destruct x
      | |- mle (let '(_, _) := ?x in _) (let '(_, _) := ?x in _) => destruct x
      end ].

Section BlockMono.
Variables f f' : nat.
Hypothesis Hf : (f <= f')%nat.

Lemma mono_blockattributes_parse attrs : mle (blockattributes_parse f attrs) (blockattributes_parse f' attrs).
Proof. unfold blockattributes_parse. mmono. Qed.

Lemma mono_macros_expand t : mle (macros_expand f t) (macros_expand f' t).
Proof. unfold macros_expand. mmono. Qed.

Lemma mono_verifyMacroLine m rd : mle (verifyMacroLine f m rd) (verifyMacroLine f' m rd).
Proof. unfold verifyMacroLine. mmono. Qed.

Lemma mono_line_filter d m : mle (line_filter f d m) (line_filter f' d m).
Proof. unfold line_filter, macros_expand. destruct (l_filter d); mmono. Qed.

Lemma mono_lineblocks_loop allowed : forall defs rd, mle (lineblocks_loop f defs rd allowed) (lineblocks_loop f' defs rd allowed).
Proof.
  induction defs as [|d ds IH]; intros rd; cbn [lineblocks_loop]; [apply mle_refl|].
  destruct (_ && _); [apply IH|]. destruct rd as [|cur rest]; [apply mle_refl|].
  destruct (re_search (l_re d) cur) as [m|]; [|apply IH]. destruct (grp0 m) as [|c0 g0]; [apply mle_refl|].
  destruct (c0 =? 92); [apply IH|].
  apply mle_bind.
  - destruct (l_verify d); [apply mle_refl|apply mono_verifyMacroLine|].
    apply mle_bind; [apply mono_blockattributes_parse|]. intros; apply mle_refl.
  - intros [ok rd1]. destruct (negb ok); [apply IH|]. apply mle_bind; [apply mono_line_filter|]. intros; apply mle_refl.
Qed.

Lemma mono_lineblocks_render rd allowed : mle (lineblocks_render f rd allowed) (lineblocks_render f' rd allowed).
Proof. apply mono_lineblocks_loop. Qed.

Lemma mono_macroDefContentFilter text m e : mle (macroDefContentFilter f text m e) (macroDefContentFilter f' text m e).
Proof. unfold macroDefContentFilter. mmono. Qed.

Lemma mono_consumeBlockAttributes : forall n n' rd blanks acc, (n <= n')%nat ->
  mle (consumeBlockAttributes f n rd blanks acc) (consumeBlockAttributes f' n' rd blanks acc).
Proof.
  induction n as [|n IH]; intros n' rd blanks acc H; [apply mle_fuel|]. destruct n' as [|n']; [lia|].
  cbn [consumeBlockAttributes]. destruct rd as [|l rd0]; [apply mle_refl|].
  apply mle_bind; [apply mono_lineblocks_render|]. intros [[out|] rd'].
  - apply IH. lia.
  - destruct rd' as [|cur rest]; [apply mle_refl|]. destruct (nonempty cur); [apply mle_refl|apply IH; lia].
Qed.

Section WithDoc.
Variables doc doc' : str -> M str.
Hypothesis Hdoc : forall t, mle (doc t) (doc' t).

Lemma mono_dblock_body i d m rest : mle (dblock_body f doc i d m rest) (dblock_body f' doc' i d m rest).
Proof.
  unfold dblock_body. apply mle_bind; [apply mle_refl|]. intros dt. apply mle_bind; [apply mle_refl|]. intros closeRe.
  destruct (readTo closeRe rest) as [[content rd1]|e|]; try apply mle_refl.
  apply mle_bind; [apply mle_refl|]. intros _. apply mle_bind; [apply mle_refl|]. intros expand.
  apply mle_bind; [|intros; apply mle_refl].
  destruct (truthy (e_skip expand)); [apply mle_refl|].
  apply mle_bind.
  { destruct (d_content d); try apply mle_refl. apply mono_macroDefContentFilter. }
  intros text. apply mle_bind; [apply mle_refl|]. intros d'. apply mle_bind; [apply mle_refl|]. intros text1.
  apply mle_bind; [apply mle_refl|]. intros opentag. apply mle_bind; [|intros; apply mle_refl].
  destruct (truthy (e_container expand)).
  - apply mle_bind; [apply mle_refl|]. intros _. apply Hdoc.
  - apply mle_lift. intros e. apply mono_replaceInline_top. exact Hf.
Qed.

Lemma mono_dblock_loop allowed : forall k i rd, mle (dblock_loop f doc k i rd allowed) (dblock_loop f' doc' k i rd allowed).
Proof.
  induction k as [|k IH]; intros i rd; cbn [dblock_loop]; [apply mle_refl|].
  apply mle_bind; [apply mle_refl|]. intros [d|]; [|apply mle_refl].
  destruct (_ && _); [apply IH|]. destruct rd as [|cur rest]; [apply mle_refl|].
  destruct (re_search (d_openRe d) cur) as [m|]; [|apply IH].
  assert (Body : mle (r <- dblock_body f doc i d m rest ;; ret (Some (fst r), snd r)) (r <- dblock_body f' doc' i d m rest ;; ret (Some (fst r), snd r))).
  { apply mle_bind; [apply mono_dblock_body|]. intros; apply mle_refl. }
  destruct (grp0 m) as [|c0 g0]; destruct (str_eqb (d_name d) _); try apply mle_refl.
  - destruct (negb (db_verify d m)); [apply IH|exact Body].
  - destruct (c0 =? 92); [apply IH|]. destruct (negb (db_verify d m)); [apply IH|exact Body].
Qed.

Lemma mono_dblocks_render rd allowed : mle (dblocks_render f doc rd allowed) (dblocks_render f' doc' rd allowed).
Proof. unfold dblocks_render. apply mle_bind; [apply mle_refl|]. intros k. apply mono_dblock_loop. Qed.

Lemma mono_lists : forall n n', (n <= n')%nat ->
  (forall it rd, mle (renderList f doc n it rd) (renderList f' doc' n' it rd)) /\
  (forall it rd, mle (renderItems f doc n it rd) (renderItems f' doc' n' it rd)) /\
  (forall it rd, mle (renderListItem f doc n it rd) (renderListItem f' doc' n' it rd)) /\
  (forall rd il at' dn, mle (itemLoop f doc n rd il at' dn) (itemLoop f' doc' n' rd il at' dn)).
Proof.
  induction n as [|n IH]; intros n' H.
  { repeat split; intros; apply mle_fuel. }
  destruct n' as [|n']; [lia|]. destruct (IH n' ltac:(lia)) as (IH1 & IH2 & IH3 & IH4).
  split; [|split; [|split]].
  - intros it rd. cbn [renderList]. apply mle_bind; [apply mle_refl|]. intros _. apply mle_bind; [apply mle_refl|]. intros open.
    apply mle_bind; [apply IH2|]. intros; apply mle_refl.
  - intros it rd. cbn [renderItems]. apply mle_bind; [apply IH3|]. intros [[out nx] rd'].
    destruct nx as [nx|]; [|apply mle_refl]. destruct (str_eqb _ _); [|apply mle_refl].
    apply mle_bind; [apply IH2|]. intros; apply mle_refl.
  - intros it rd. cbn [renderListItem]. apply mle_bind.
    { destruct (nonempty _); [|apply mle_refl]. apply mle_bind; [apply mle_refl|]. intros t. apply mle_bind; [apply mle_refl|]. intros _.
      apply mle_bind; [|intros; apply mle_refl]. apply mle_lift. intros e. apply mono_replaceInline_top. exact Hf. }
    intros head. apply mle_bind; [apply mle_refl|]. intros iopen. destruct (item_text it); [|apply mle_refl].
    apply mle_bind; [apply IH4|]. intros [[[nx rd'] il] at']. apply mle_bind; [|intros; apply mle_refl].
    apply mle_lift. intros e. apply mono_replaceInline_top. exact Hf.
  - intros rd il at' dn. cbn [itemLoop]. apply mle_bind; [apply mono_consumeBlockAttributes; lia|]. intros [[bl out] rd1].
    destruct (_ || _); [apply mle_refl|]. apply mle_bind; [apply mle_refl|]. intros [nx rd2].
    destruct nx as [nx|].
    + apply mle_bind; [apply mle_refl|]. intros io. destruct io; [apply mle_refl|]. apply mle_bind; [apply IH1|]. intros; apply mle_refl.
    + destruct dn; [apply mle_refl|]. destruct (bl =? 0)%Z.
      { apply mle_bind; [apply mle_refl|]. intros saved. apply mle_bind; [apply mle_refl|]. intros _.
        apply mle_bind; [apply mono_dblocks_render|]. intros r. apply mle_bind; [apply mle_refl|]. intros _.
        destruct r as [[o|] rd3]; [apply IH4|]. destruct rd3; [apply mle_refl|apply IH4]. }
      destruct (bl =? 1)%Z; [|apply mle_refl].
      apply mle_bind; [apply mle_refl|]. intros saved. apply mle_bind; [apply mle_refl|]. intros _.
      apply mle_bind; [apply mono_dblocks_render|]. intros r. apply mle_bind; [apply mle_refl|]. intros _.
      destruct r as [[o|] rd3]; [apply IH4|apply mle_refl].
Qed.

Lemma mono_lists_render n n' rd : (n <= n')%nat -> mle (lists_render f doc n rd) (lists_render f' doc' n' rd).
Proof.
  intros H. unfold lists_render. apply mle_bind; [apply mle_refl|]. intros [[it|] rd']; [|apply mle_refl].
  apply mle_bind; [apply mle_refl|]. intros _. apply mle_bind; [apply (proj1 (mono_lists n n' H))|]. intros; apply mle_refl.
Qed.

Lemma mono_doc_loop : forall n n' rd, (n <= n')%nat -> mle (doc_loop f doc n rd) (doc_loop f' doc' n' rd).
Proof.
  induction n as [|n IH]; intros n' rd H; [apply mle_fuel|]. destruct n' as [|n']; [lia|]. cbn [doc_loop].
  destruct (skipBlankLines rd) as [|l rd0]; [apply mle_refl|].
  apply mle_bind; [apply mono_lineblocks_render|]. intros [[out|] rd1].
  { apply mle_bind; [apply IH; lia|]. intros; apply mle_refl. }
  apply mle_bind; [apply mono_lists_render; lia|]. intros [[out|] rd2].
  { apply mle_bind; [apply IH; lia|]. intros; apply mle_refl. }
  apply mle_bind; [apply mono_dblocks_render|]. intros [[out|] rd3]; [|apply mle_refl].
  apply mle_bind; [apply IH; lia|]. intros; apply mle_refl.
Qed.
End WithDoc.
End BlockMono.

Theorem mono_doc_render : forall n m text, (n <= m)%nat -> mle (doc_render n text) (doc_render m text).
Proof.
  induction n as [|n IH]; intros m text H; [apply mle_fuel|]. destruct m as [|m]; [lia|]. cbn [doc_render].
  apply mono_doc_loop; [lia|intros t; apply IH; lia|lia].
Qed.

(* the API: more fuel never changes an answer *)
Theorem fuel_monotone n m src o s : (n <= m)%nat -> api_render n src o s <> Fuel -> api_render m src o s = api_render n src o s.
Proof.
  intros H Hn.
  assert (L : mle (api_render n src o) (api_render m src o)).
  { unfold api_render. apply mle_bind; [apply mle_refl|]. intros md. apply mle_bind; [apply mle_refl|]. intros _.
    apply mle_bind; [apply mle_refl|]. intros _. apply mono_doc_render. exact H. }
  destruct (L s) as [E|E]; [congruence|symmetry; exact E].
Qed.

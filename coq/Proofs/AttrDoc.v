(* C12 end to end: a Block Attributes line with one class name, followed by a paragraph line: the class goes into the <p> tag and
   nothing stays pending. *)
From Rimu Require Import Base Unicode Regex RegexAnalysis RegexParse Str Types Tables Guards State Inline Block
  Frame FrameBlock FrameInst OptionsLemmas MiscLemmas MoreLemmas Plain TableFacts Lines PlainDoc
  RegexSem MatchLemmas MatchExact ScanLemmas ParaDoc HeaderDoc MacroSubst AnchoredLine MacroDefine MacroDoc AttrInject GreedyLoop.
From Coq Require Import Lia.
Local Open Scope monad_scope.

Definition letter_alphabet : list char := firstn 52 safe_alphabet.
Definition cls_alphabet : list char := firstn 62 safe_alphabet ++ [45].
Definition ba_alphabet : list char := cls_alphabet ++ [46].
Definition attr_def : ldef := nth 10 lineblocks_defs dummy_ldef.
Definition before_attr : list ldef := firstn 10 lineblocks_defs.

Definition cls_name_ok (a : char) (w : str) : Prop := In a letter_alphabet /\ over cls_alphabet w.
Definition ba_line (a : char) (w : str) : str := 46 :: a :: w.

Lemma ba_facts :
  forallb (fun x => set_match false letS x && negb (set_match false spS x)) letter_alphabet = true /\
  forallb (fun x => set_match false wdS x && negb (set_match false spS x) && no_macro_start x && negb (x =? 2) && negb (x =? 10)) cls_alphabet = true /\
  forallb (fun x => existsb (N.eqb x) cls_alphabet) letter_alphabet = true /\
  forallb (fun d => never_matches ba_alphabet [46] (re_ast (l_re d))) before_attr = true /\
  lineblocks_defs = before_attr ++ attr_def :: skipn 11 lineblocks_defs /\
  l_verify attr_def = LvAttributes /\ l_filter attr_def = LfNone /\ l_repl attr_def = [] /\
  re_match re_blockattributes_parse_1 [] = Some {| m_start := 0; m_end := 0; m_groups := [Some []; Some []; None; None; None; None] |} /\
  no_macro_start 46 = true.
Proof. repeat split; vm_compute; reflexivity. Qed.

Lemma attr_shape : exists S1,
  re_ast (l_re attr_def) = RSeq (RBol false) (RSeq (RRep true 0 (Some 1) (RLit 92)) (RSeq (RLit 46) (RSeq (RSet false S1) (RSeq (RRep true 0 None (RAny false)) (REol false))))) /\
  (forall x, In x letter_alphabet -> set_match false S1 x = true) /\
  wf_exact (re_ast (l_re attr_def)) = true /\
  ends_eol (RSeq (RRep true 0 (Some 1) (RLit 92)) (RSeq (RLit 46) (RSeq (RSet false S1) (RSeq (RRep true 0 None (RAny false)) (REol false))))) = true /\
  bref_free (RSeq (RRep true 0 (Some 1) (RLit 92)) (RSeq (RLit 46) (RSeq (RSet false S1) (RSeq (RRep true 0 None (RAny false)) (REol false))))) = true.
Proof.
  eexists. split; [reflexivity|]. split; [|repeat split; reflexivity].
  intros x Hx. assert (F : forallb (fun y => set_match false [IRange 97 122; IRange 65 90; IRange 35 35; IRange 34 34; IRange 91 91; IRange 43 43; IRange 45 45] y) letter_alphabet = true) by (vm_compute; reflexivity).
  rewrite forallb_forall in F. apply F. exact Hx.
Qed.

Lemma cls_chars a w : cls_name_ok a w ->
  class_name_ok a w /\ quiet (ba_line a w) /\ (forall x, In x (ba_line a w) -> x <> 10) /\ over ba_alphabet (ba_line a w) /\
  (forall x, In x (a :: w) -> set_match false spS x = false).
Proof.
  intros [Ha Hw]. destruct ba_facts as (F1 & F2 & F3 & _ & _ & _ & _ & _ & _ & F46).
  rewrite forallb_forall in F1, F2, F3.
  assert (Hac : In a cls_alphabet).
  { apply F3 in Ha. apply existsb_exists in Ha as (y & Hy & E). apply N.eqb_eq in E. subst y. exact Hy. }
  assert (Hall : forall x, In x (a :: w) -> In x cls_alphabet) by (intros x [<-|Hx]; auto).
  assert (Hf : forall x, In x cls_alphabet -> set_match false wdS x = true /\ set_match false spS x = false /\ no_macro_start x = true /\ x <> 2 /\ x <> 10).
  { intros x Hx. apply F2 in Hx. apply andb_prop in Hx as [Hx H5]. apply andb_prop in Hx as [Hx H4]. apply andb_prop in Hx as [Hx H3].
    apply andb_prop in Hx as [H1 H2]. apply negb_true_iff in H2, H4, H5. apply N.eqb_neq in H4, H5. auto. }
  split; [|split; [|split; [|split]]].
  - pose proof (F1 a Ha) as H1. apply andb_prop in H1 as [H1 H2]. apply negb_true_iff in H2.
    split; [exact H1|]. split; [exact H2|]. intros x Hx. apply (Hf x (Hw x Hx)).
  - split.
    + intros x [<-|Hx]; [exact F46|]. apply (Hf x (Hall x Hx)).
    + cbn [ba_line existsb]. replace (2 =? 46) with false by reflexivity. cbn [orb].
      destruct (existsb (N.eqb 2) (a :: w)) eqn:E; [|exact E]. apply existsb_exists in E as (x & Hx & Ex). apply N.eqb_eq in Ex. subst x.
      destruct (Hf 2 (Hall 2 Hx)) as (_ & _ & _ & H2 & _). congruence.
  - intros x [<-|Hx]; [discriminate|]. apply (Hf x (Hall x Hx)).
  - intros x [<-|Hx]; unfold ba_alphabet; apply in_or_app; [right; left; reflexivity|left; apply Hall; exact Hx].
  - intros x Hx. apply (Hf x (Hall x Hx)).
Qed.

(* ---- the attributes line-block pattern matches the line, group 0 the whole line ---- *)
Lemma attr_line_match a w : cls_name_ok a w ->
  exists m, re_search (l_re attr_def) (ba_line a w) = Some m /\ grp0 m = ba_line a w.
Proof.
  intros Hc. destruct (cls_chars a w Hc) as (_ & _ & Hnl & _ & _). destruct Hc as [Ha Hw].
  destruct attr_shape as (S1 & Sh & HS1 & Hwf & He & Hb).
  assert (Hex : match_at (l_re attr_def) 0 None (ba_line a w) <> None).
  { apply (proj2 (match_at_iff _ _ _ _ Hwf)). rewrite Sh. unfold ba_line. eexists. cbn [mx].
    eexists. split; [split; reflexivity|].
    eexists. split; [exists O; split; [reflexivity|split; [cbn; lia|unfold max_ok; cbn; lia]]|].
    eexists. split; [eexists; eexists; cbn [st_rest st_i st_p st_c]; split; [reflexivity|split; [reflexivity|reflexivity]]|].
    eexists. split; [exists a, w; cbn [st_rest st_i st_p st_c]; split; [reflexivity|split; [apply HS1; exact Ha|reflexivity]]|].
    eexists. split.
    - exists (length w). split; [|split; [lia|exact Logic.I]]. rewrite <- (app_nil_r w) at 2. apply iter_any_intro.
      intros x Hx. apply Hnl. right. right. exact Hx.
    - split; reflexivity. }
  destruct (match_at (l_re attr_def) 0 None (ba_line a w)) as [m|] eqn:E; [|congruence].
  exists m. pose proof (search_of_match_at _ _ _ _ _ E) as Hs. split; [exact Hs|].
  apply grp0_of_groups. eapply anchored_grp0; [exact Hwf|exact Sh|exact He|exact Hb|exact Hnl|exact Hs].
Qed.

(* ---- blockattributes.parse on  .name ---- *)
Lemma strip_name (t : str) : (forall x, In x t -> set_match false spS x = false) -> strip t = t /\ strip (32 :: t) = t.
Proof.
  intros H. assert (Hs : forall x, In x t -> is_space x = false).
  { intros x Hx. apply H in Hx. unfold is_space. unfold set_match, in_items, spS in Hx. cbn [existsb in_item xorb negb orb] in Hx. unfold in_cat in Hx.
    destruct (in_ranges x space_ranges); [discriminate|reflexivity]. }
  assert (E : strip t = t).
  { destruct t as [|c t0]; [reflexivity|]. unfold strip. cbn [lstrip]. rewrite (Hs c (or_introl eq_refl)).
    unfold rstrip. destruct (frev (c :: t0)) as [|y r] eqn:Er.
    - rewrite frev_rev in Er. apply (f_equal (@rev char)) in Er. rewrite rev_involutive in Er. discriminate Er.
    - cbn [lstrip]. assert (Hy : In y (c :: t0)) by (apply in_rev; rewrite <- frev_rev, Er; left; reflexivity).
      rewrite (Hs y Hy). rewrite <- Er. rewrite !frev_rev. apply rev_involutive. }
  split; [exact E|]. unfold strip at 1. cbn [lstrip]. replace (is_space 32) with true by reflexivity. fold (strip t). exact E.
Qed.

Section BA.
Variable fuel : nat.

Lemma ba_parse_class a w s : cls_name_ok a w -> parse_skip (s_mode s) = false -> p_classes s = [] ->
  blockattributes_parse fuel (ba_line a w) s = Ok (true, set_classes s (a :: w)).
Proof.
  intros Hc Hskip Hcls. destruct (cls_chars a w Hc) as (Hcn & [Q1 Q2] & _ & _ & Hsp).
  destruct ba_facts as (_ & _ & _ & _ & _ & _ & _ & _ & Fp1 & _).
  unfold blockattributes_parse. unfold bind at 1. unfold gets at 1. rewrite Hskip.
  unfold bind at 1. unfold lift, replaceInline_top, replaceInline. cbn [truthy e_macros e_spans e_specials].
  unfold macros_render_top. rewrite macros_render_identity; [|exact Q1|rewrite Q2; reflexivity].
  cbn [ibind iret log_msgs bind ret].
  cbn [app log_msgs bind ret]. unfold ba_line. pose proof (parse0_class a w Hcn) as Ep0. unfold reader, str, char in Ep0 |- *. rewrite Ep0. cbn [m_end].
  assert (Ed : dropN (0 + 1 + 1 + lenN w) (46 :: a :: w) = []).
  { replace (0 + 1 + 1 + lenN w) with (lenN (46 :: a :: w)) by (cbn [lenN]; lia). rewrite <- (app_nil_r (46 :: a :: w)) at 2. apply dropN_app_exact. }
  unfold reader, str, char in Ed |- *. rewrite Ed.
  unfold reader, str, char in Fp1 |- *. rewrite Fp1. unfold grp, grp_s, grp. cbn [m_groups nth opt_nonempty].
  unfold bind at 1. cbn [modify]. rewrite Hcls. cbn [app].
  destruct (strip_name (a :: w) Hsp) as [E1 E2]. unfold reader, str, char in E1, E2 |- *. rewrite E1, E2.
  unfold bind. cbn [ret]. reflexivity.
Qed.
End BA.

(* ---- the line-block stage on the attributes line ---- *)
Lemma attr_line_stage fuel a w rest s : cls_name_ok a w -> parse_skip (s_mode s) = false -> p_classes s = [] ->
  lineblocks_render fuel (ba_line a w :: rest) [] s = Ok ((Some [], rest), set_classes s (a :: w)).
Proof.
  intros Hc Hskip Hcls. destruct (cls_chars a w Hc) as (_ & _ & _ & Hover & _).
  destruct ba_facts as (_ & _ & _ & Fb & Fsplit & Fv & Ff & Frepl & _).
  destruct (attr_line_match a w Hc) as (m & Hm & G0).
  unfold lineblocks_render. rewrite Fsplit. rewrite lineblocks_loop_skip.
  2:{ intros d Hd0. rewrite forallb_forall in Fb. eapply never_matches_sound; [exact (Fb d Hd0)|left; reflexivity|exact Hover]. }
  rewrite lineblocks_loop_unfold. cbn [andb]. rewrite Hm, G0. unfold ba_line at 1. replace (46 =? 92) with false by reflexivity.
  rewrite Fv. unfold bind at 1. unfold bind at 1. rewrite (ba_parse_class fuel a w s Hc Hskip Hcls). cbn [ret negb].
  unfold line_filter. rewrite Ff, Frepl. unfold bind at 1. cbn [ret tl]. reflexivity.
Qed.

(* ---- the paragraph that follows, with the class pending ---- *)
Lemma p_in_open_tags : In ($"<p>") open_tags.
Proof. vm_compute. intuition. Qed.

Definition cls_html (cls : str) : str := $"<p class=""" ++ cls ++ $""">".

Lemma inject_p_class cls s : cls_ok cls -> p_classes s = cls -> p_id s = [] -> p_css s = [] -> p_attrs s = [] ->
  injectHtmlAttributes ($"<p>") true s = Ok (cls_html cls, clear_pending s).
Proof.
  intros Hc H1 H2 H3 H4. rewrite (class_injected _ cls s p_in_open_tags Hc H1 H2 H3 H4).
  f_equal. f_equal. unfold cls_html. assert (E : name_len ($"<p>") = 2) by (vm_compute; reflexivity). rewrite E.
  cbn [takeN dropN]. change ($"<p>") with (60 :: 112 :: 62 :: @nil char).
  replace (takeN 2 [60; 112; 62]) with [60; 112] by reflexivity. replace (dropN 2 [60; 112; 62]) with [62] by reflexivity.
  cbn [app]. repeat (rewrite <- app_assoc; cbn [app]). reflexivity.
Qed.

Lemma g_dblock_body_cls l R n doc s m pd cls : (exists c rest, l = c :: rest) ->
  (forall k, replaceInline_top (S (S (S (S k)))) (ienv_of s) (Some l) para_expand = iret R) ->
  dblocks_std (s_dblocks s) -> p_opts s = expand_none ->
  cls_ok cls -> p_classes s = cls -> p_id s = [] -> p_css s = [] -> p_attrs s = [] ->
  dcore pd = dcore para -> (forall d0, nth 8 (s_dblocks s) d0 = pd) ->
  m = {| m_start := 0; m_end := lenN l; m_groups := [Some l; Some l] |} ->
  dblock_body (S (S (S (S n)))) doc 8 pd m [] s = Ok ((cls_html cls ++ R ++ $"</p>", []), clear_pending s).
Proof.
  intros (c0 & rest0 & El) Hinl Hd Ho Hc H1 H2 H3 H4 Hpd Hnth ->.
  subst l. remember (c0 :: rest0) as l eqn:El in *.
  destruct (para_facts_of pd Hpd) as (Fname & Fdelim & Fcontent & Fverify & Fopen & Fclose & Fexp & Fre).
  unfold dblock_body. rewrite Fdelim.
  unfold bind at 1. cbn [grp nth m_groups ret].
  unfold bind at 1. unfold gets at 1. rewrite (Hnth pd).
  cbn [readTo].
  unfold bind at 1.
  replace (mem (d_name pd) unterminated_names) with false by (rewrite Fname; vm_compute; reflexivity).
  rewrite andb_false_r. cbn [ret tl app].
  unfold bind at 1. unfold gets at 1. rewrite (Hnth pd), Fexp, Ho.
  unfold expand_merge, expand_none. cbn [e_macros e_container e_skip e_spans e_specials truthy].
  replace (match l with [] => [] | _ :: _ => [l] end) with [l] by (rewrite El; reflexivity).
  cbn [app join].
  rewrite Fcontent.
  unfold bind at 1. unfold bind at 1. cbn [ret].
  unfold bind at 1. unfold gets at 1. rewrite (Hnth pd).
  replace (str_eqb (d_name pd) $"html") with false by (rewrite Fname; vm_compute; reflexivity).
  unfold bind at 1. cbn [ret].
  unfold bind at 1. rewrite Fopen.
  rewrite (inject_p_class cls s Hc H1 H2 H3 H4).
  unfold bind at 1. unfold lift.
  assert (Eenv : ienv_of (clear_pending s) = ienv_of s) by (unfold clear_pending; destruct s; reflexivity).
  rewrite Eenv.
  pose proof (Hinl n) as Hin. unfold para_expand in Hin. unfold reader, str, char in Hin |- *. rewrite Hin.
  cbn [iret log_msgs bind ret].
  unfold bind at 1. unfold gets at 1.
  assert (Ed' : s_dblocks (clear_pending s) = s_dblocks s) by (unfold clear_pending; destruct s; reflexivity).
  rewrite Ed', (Hnth _), Fclose.
  replace (str_eqb (d_name pd) $"division") with false by (rewrite Fname; vm_compute; reflexivity).
  cbn [andb ret bind modify].
  assert (Es : set_popts (clear_pending s) expand_none = clear_pending s).
  { unfold clear_pending. destruct s; simpl in *. subst. reflexivity. }
  change (mkExpand None None None None None) with expand_none. rewrite Es. rewrite app_nil_r. reflexivity.
Qed.

Lemma g_stage_para_cls l R n doc s cls (Hpl : para_line (ienv_of s) l R) :
  dblocks_std (s_dblocks s) -> p_opts s = expand_none ->
  cls_ok cls -> p_classes s = cls -> p_id s = [] -> p_css s = [] -> p_attrs s = [] ->
  dblocks_render (S (S (S (S n)))) doc [l] [] s = Ok ((Some (cls_html cls ++ R ++ $"</p>"), []), clear_pending s).
Proof.
  intros Hd Ho Hc H1 H2 H3 H4.
  unfold dblocks_render. unfold bind at 1. unfold gets at 1.
  destruct (std_para s Hd) as (pre & pd & Esplit & Lpre & Hpd & Hnth & En & Hpre).
  destruct (para_facts_of pd Hpd) as (Fname & _ & _ & Fverify & _ & _ & _ & Fre).
  rewrite (std_length _ Hd).
  pose proof (dblock_loop_skip (S (S (S (S n)))) doc l s pre [] [pd] 1) as Sk.
  cbn [length app] in Sk. rewrite Lpre in Sk.
  change (8 + 1)%nat with 9%nat in Sk. change (0 + 8)%nat with 8%nat in Sk.
  unfold reader, str, char in Sk |- *. rewrite Sk.
  - cbn [dblock_loop]. unfold bind at 1. unfold gets at 1.
    rewrite En. cbn [andb]. rewrite Fre.
    rewrite (para_match l) by exact (pl_nl _ _ _ Hpl).
    unfold grp0, grp_s, grp. cbn [nth m_groups].
    rewrite Fname. replace (str_eqb $"paragraph" $"paragraph") with true by reflexivity.
    unfold db_verify. rewrite Fverify. cbn [negb].
    destruct (pl_first _ _ _ Hpl) as (c & rest & El & _).
    pose proof (g_dblock_body_cls l R n doc s _ pd cls (ex_intro _ c (ex_intro _ rest El)) (pl_inline _ _ _ Hpl) Hd Ho Hc H1 H2 H3 H4 Hpd Hnth eq_refl) as Eb.
    subst l. unfold bind at 1. unfold reader, str, char in Eb |- *. rewrite Eb. reflexivity.
  - exact Esplit.
  - intros d Hdin. destruct (Hpre d Hdin) as (d' & Hd' & ->). apply (pl_nomatch _ _ _ Hpl). apply in_block_regexes_dblock. exact Hd'.
Qed.

(* ---- the document: attributes line, paragraph line ---- *)
Theorem class_paragraph_loop n k doc a w l R s (Hpl : para_line (ienv_of s) l R) :
  quiet_default s -> parse_skip (s_mode s) = false -> cls_name_ok a w ->
  doc_loop (S (S (S (S n)))) doc (S (S (S k))) [ba_line a w; l] s = Ok (cls_html (a :: w) ++ R ++ $"</p>", s).
Proof.
  intros Hq Hskip Hc. pose proof Hq as (Hd & Hr & Hqt & (P1 & P2 & P3 & P4) & Ho).
  set (s1 := set_classes s (a :: w)).
  rewrite (TableFacts.doc_loop_line_block (S (S (S (S n)))) doc (S (S k)) [ba_line a w; l] (ba_line a w) [l] [] [l] s s1).
  2:{ unfold ba_line. cbn [skipBlankLines]. rewrite strip_nonblank; reflexivity. }
  2:{ apply attr_line_stage; assumption. }
  assert (Hpl1 : para_line (ienv_of s1) l R) by (unfold s1; destruct s; exact Hpl).
  assert (Hd1 : dblocks_std (s_dblocks s1)) by (unfold s1; destruct s; exact Hd).
  rewrite (TableFacts.doc_loop_delimited_block (S (S (S (S n)))) doc (S k) [l] l [] [l] [l] (cls_html (a :: w) ++ R ++ $"</p>") [] s1 s1 s1 (clear_pending s1)).
  - rewrite (TableFacts.doc_loop_blank_only _ _ k [] _) by reflexivity. rewrite app_nil_r. cbn [app]. f_equal. f_equal.
    unfold s1, clear_pending. destruct s; cbn in *. subst. reflexivity.
  - apply (g_skip l R _ Hpl1).
  - apply (g_stage_line l R _ Hpl1).
  - apply (g_stage_list l R _ Hpl1).
  - apply (g_stage_para_cls l R n doc s1 (a :: w) Hpl1 Hd1); unfold s1; destruct s; cbn in *; auto. exists a, w. reflexivity.
Qed.

Lemma ba_alphabet_special : forallb (fun c => negb (is_nl c) && negb (reserved c)) ba_alphabet = true.
Proof. vm_compute. reflexivity. Qed.

Lemma para_line_chars e l R (Hpl : para_line e l R) : forall x, In x l -> is_nl x = false /\ reserved x = false.
Proof.
  intros x Hx. split; [apply (pl_nl _ _ _ Hpl x Hx)|].
  pose proof (pl_res _ _ _ Hpl) as Hr. unfold blank_reserved in Hr. unfold reserved.
  assert (Hm : forall (t : str), map (fun c => if (c =? 0) || (c =? 1) || (c =? 2) then 32 else c) t = t ->
               forall y, In y t -> (y =? 0) || (y =? 1) || (y =? 2) = false).
  { induction t as [|b t IH]; intros E y Hy; [destruct Hy|]. cbn [map] in E. inversion E as [[E1 E2]]. destruct Hy as [<-|Hy].
    - destruct ((b =? 0) || (b =? 1) || (b =? 2)) eqn:Er; [|reflexivity]. subst b. discriminate Er.
    - apply IH; assumption. }
  apply (Hm l Hr x Hx).
Qed.

Theorem class_paragraph_document n a w l R s (Hpl : para_line (ienv_of s) l R) :
  quiet_default s -> parse_skip (s_mode s) = false -> cls_name_ok a w ->
  doc_render (S (S (S (S (S n))))) (ba_line a w ++ 10 :: l) s = Ok (cls_html (a :: w) ++ R ++ $"</p>", s).
Proof.
  intros Hq Hskip Hc.
  change (doc_render (S (S (S (S (S n))))) (ba_line a w ++ 10 :: l)) with
    (doc_loop (S (S (S (S n)))) (doc_render (S (S (S (S n))))) (S (S (S (S n)))) (mk_reader (ba_line a w ++ 10 :: l))).
  destruct (cls_chars a w Hc) as (_ & _ & _ & Hover & _).
  assert (Hbch : forall x, In x (ba_line a w) -> is_nl x = false /\ reserved x = false).
  { intros x Hx. apply Hover in Hx. pose proof ba_alphabet_special as F. rewrite forallb_forall in F. apply F in Hx.
    apply andb_prop in Hx as [H1 H2]. apply negb_true_iff in H1, H2. auto. }
  rewrite Locality.mk_reader_join by (intros x Hx E; subst x; apply Hbch in Hx; destruct Hx as [Hx _]; discriminate Hx).
  rewrite (mk_reader_line _ Hbch), (mk_reader_line _ (para_line_chars _ l R Hpl)). cbn [app].
  apply (class_paragraph_loop n (S n) _ a w l R s Hpl Hq Hskip Hc).
Qed.

(* Facts recomputed from the generated tables on every run, and small structural lemmas
   for C02, C08, C10, C19. *)
From Rimu Require Import Base Unicode Regex RegexAnalysis RegexParse Str Types Tables Guards State Inline Block
  Frame FrameBlock FrameInst OptionsLemmas MiscLemmas MoreLemmas.
From Coq Require Import Lia.
Local Open Scope monad_scope.

(* ---- C02: shape of every regular expression of the source ---- *)
Definition all_regexes : list (str * cre) :=
  regex_table ++ [($"quotesRe(default)", quotesRe quotes_default); ($"unescapeRe(default)", unescapeRe quotes_default)].

(* the first Block Attributes pattern is the deliberate exception (nested quantifier, matched on its own) *)
Definition star_height_exceptions : list str :=
  [$"re_blockattributes_parse_0";
   (* the scans for an existing class / id / style attribute step over quoted attribute values: (?:[^>"]|"[^"]*")*? --
      the two alternatives start with different characters (C02_exclusive_alternatives), so the loop has one history *)
   $"re_blockattributes_injectHtmlAttributes_0"; $"re_blockattributes_injectHtmlAttributes_1"; $"re_blockattributes_injectHtmlAttributes_2"].

Theorem star_height_le_1 :
  forallb (fun nr => Nat.leb (star_height (re_ast (snd nr))) 1 || mem (fst nr) star_height_exceptions) all_regexes = true.
Proof. vm_compute. reflexivity. Qed.

(* under every unbounded repetition the alternatives start with different characters (checked over Latin-1) *)
Theorem loops_have_exclusive_alternatives :
  forallb (fun nr => loop_alts_disjoint latin1 (re_ast (snd nr))) all_regexes = true.
Proof. vm_compute. reflexivity. Qed.

Theorem exception_is_last_in_its_pattern :
  (* the exception has star height 3 and nothing follows its nested loop: its first path succeeds *)
  star_height (re_ast re_blockattributes_parse_0) = 3%nat /\
  match re_ast re_blockattributes_parse_0 with
  | RSeq _ (RSeq _ (RSeq _ (RRep _ _ _ _))) => true
  | _ => false
  end = true.
Proof. vm_compute. split; reflexivity. Qed.

Theorem no_nullable_loop_bodies :
  forallb (fun nr => no_nullable_loop (re_ast (snd nr))) all_regexes = true.
Proof. vm_compute. reflexivity. Qed.

Theorem table_regex_count : Nat.leb 60 (length all_regexes) = true.
Proof. vm_compute. reflexivity. Qed.

(* the matcher iterates a repetition only below its minimum or when the previous optional
   iteration started elsewhere (sre's last_ptr rule): an iteration that starts where the previous
   optional one started is refused *)
Theorem loop_refuses_stationary_iteration mb k mn mx fuel cnt i p rest c :
  cnt <? mn = false ->
  loop mb k true mn mx fuel cnt (Some i) i p rest c =
  match fuel with [] => None | _ :: _ => k i p rest c end.
Proof.
  intros E. destruct fuel as [|f fuel]; cbn [loop]; [reflexivity|]. rewrite E.
  unfold same_pos. rewrite N.eqb_refl. rewrite andb_false_r. reflexivity.
Qed.

(* ---- C08: the block loop renders blocks in order ---- *)
Section Order.
Variable fuel : nat.
Variable doc : str -> M str.

Theorem doc_loop_line_block n rd l t out rd' s s1 :
  skipBlankLines rd = l :: t ->
  lineblocks_render fuel (l :: t) [] s = Ok ((Some out, rd'), s1) ->
  doc_loop fuel doc (S n) rd s =
  match doc_loop fuel doc n rd' s1 with
  | Ok (rest, s2) => Ok (out ++ rest, s2)
  | Raise e => Raise e
  | Fuel => Fuel
  end.
Proof.
  intros Hs Hl. cbn [doc_loop]. rewrite Hs. unfold bind at 1. rewrite Hl. unfold bind, ret.
  destruct (doc_loop fuel doc n rd' s1) as [[rest s2]| |]; reflexivity.
Qed.

Theorem doc_loop_blank_only n rd s : skipBlankLines rd = [] -> doc_loop fuel doc (S n) rd s = Ok ([], s).
Proof. intros Hs. cbn [doc_loop]. rewrite Hs. reflexivity. Qed.

Theorem doc_loop_delimited_block n rd l t rd1 rd2 out rd3 s s1 s2 s3 :
  skipBlankLines rd = l :: t ->
  lineblocks_render fuel (l :: t) [] s = Ok ((None, rd1), s1) ->
  lists_render fuel doc n rd1 s1 = Ok ((None, rd2), s2) ->
  dblocks_render fuel doc rd2 [] s2 = Ok ((Some out, rd3), s3) ->
  doc_loop fuel doc (S n) rd s =
  match doc_loop fuel doc n rd3 s3 with
  | Ok (rest, s4) => Ok (out ++ rest, s4)
  | Raise e => Raise e
  | Fuel => Fuel
  end.
Proof.
  intros Hs Hl Hli Hd. cbn [doc_loop]. rewrite Hs. unfold bind at 1. rewrite Hl.
  unfold bind at 1. rewrite Hli. unfold bind at 1. rewrite Hd. unfold bind, ret.
  destruct (doc_loop fuel doc n rd3 s3) as [[rest s4]| |]; reflexivity.
Qed.
End Order.

Lemma skipBlankLines_idem rd : skipBlankLines (skipBlankLines rd) = skipBlankLines rd.
Proof.
  induction rd as [|l t IH]; simpl; auto. destruct (is_empty (strip l)) eqn:E; auto. simpl. rewrite E. reflexivity.
Qed.

(* names, tags and expansion of the generated delimited-block table *)
Definition block_row (d : ddef) := (d_name d, d_openTag d, d_closeTag d, truthy (e_container (d_expand d)), truthy (e_skip (d_expand d))).

Theorem block_table :
  map block_row dblocks_default =
  [($"macro-definition", [], [], false, false); ($"comment", [], [], false, true);
   ($"division", $"<div>", $"</div>", true, false); ($"quote", $"<blockquote>", $"</blockquote>", true, false);
   ($"code", $"<pre><code>", $"</code></pre>", false, false); ($"html", [], [], false, false);
   ($"indented", $"<pre><code>", $"</code></pre>", false, false);
   ($"quote-paragraph", $"<blockquote><p>", $"</p></blockquote>", false, false);
   ($"paragraph", $"<p>", $"</p>", false, false)].
Proof. vm_compute. reflexivity. Qed.

(* every block that can carry source text escapes it unless it is a container, skipped, or handled by the HTML policy *)
Theorem blocks_escape_or_filter :
  forallb (fun d => truthy (e_specials (d_expand d)) || mem (d_name d) [$"macro-definition"; $"html"]) dblocks_default = true.
Proof. vm_compute. reflexivity. Qed.

(* ---- C10: list table and wrapping ---- *)
Definition list_row (d : listdef) :=
  (li_listOpen d, li_listClose d, li_itemOpen d, li_itemClose d, li_termOpen d, li_termClose d).

Theorem list_table :
  map list_row lists_defs =
  [($"<ul>", $"</ul>", $"<li>", $"</li>", [], []); ($"<ol>", $"</ol>", $"<li>", $"</li>", [], []);
   ($"<dl>", $"</dl>", $"<dd>", $"</dd>", $"<dt>", $"</dt>")].
Proof. vm_compute. reflexivity. Qed.

Theorem allowed_attachments :
  lists_allowed0 = [$"comment"; $"code"; $"division"; $"html"; $"quote"] /\
  lists_allowed1 = [$"indented"; $"quote-paragraph"] /\ lists_allowed_attrs = [$"attributes"].
Proof. vm_compute. repeat split. Qed.

(* every list is wrapped in its own open/close tags, and its marker is popped from the stack when it closes *)
Theorem renderList_wrapped fuel doc n it rd s out nx rd' s' :
  renderList fuel doc n it rd s = Ok ((out, nx, rd'), s') ->
  exists o body, out = o ++ body ++ li_listClose (it_def it).
Proof.
  destruct n as [|n]; cbn [renderList]; [discriminate|].
  intros H. unfold bind in H. cbn [modify] in H.
  destruct (injectHtmlAttributes _ _ _) as [[o s1]| |]; try discriminate.
  match type of H with match ?x with _ => _ end = _ => destruct x as [[[[body nx1] rd1] s2]| |] end; try discriminate.
  destruct (pop_listid s2) as [[u s3]| |]; try discriminate.
  inversion H; subst. eauto.
Qed.

(* ---- C19: diagnostics at the definition / option sites ---- *)
Theorem unknown_block_name_reported name value s :
  existsb (fun d => str_eqb (d_name d) name) (s_dblocks s) = false ->
  dblocks_setDefinition name value s =
  Ok (tt, set_log s ((s_cb s, $"illegal delimited block name: " ++ name ++ $": |" ++ name ++ $"|='" ++ value ++ $"'") :: s_log s)).
Proof. intros H. unfold dblocks_setDefinition, bind, gets. rewrite H. reflexivity. Qed.

Theorem blank_macro_redefinition_reported value s :
  setValue_skip (s_mode s) = false -> nonempty value = true ->
  macros_setValue $"--" value s =
  Ok (tt, set_log s ((s_cb s, $"the predefined blank '--' macro cannot be redefined") :: s_log s)).
Proof.
  intros H Hv. unfold macros_setValue, bind, gets. rewrite H.
  assert (E : ends_with [63] $"--" = false) by (vm_compute; reflexivity).
  rewrite E. cbv zeta. rewrite str_eqb_refl, Hv. reflexivity.
Qed.

Theorem illegal_replacement_reported pattern flags repl s :
  parse_regex pattern (existsb (N.eqb 105) flags) (existsb (N.eqb 109) flags) = PError ->
  replacements_setDefinition pattern flags repl s =
  Ok (tt, set_log s ((s_cb s, $"illegal replacement regular expression: " ++ pattern) :: s_log s)).
Proof. intros H. unfold replacements_setDefinition. rewrite H. reflexivity. Qed.

Theorem unterminated_names_fact : unterminated_names = [$"code"; $"comment"; $"division"; $"quote"].
Proof. vm_compute. reflexivity. Qed.

(* Lemmas about the model of rimuc.main (C18). *)
From Rimu Require Import Base Regex RegexParse Str Types Tables Guards State Inline Block Rimuc.
From Coq Require Import Lia.

(* ---- the order of inputs ---- *)
Theorem plan_order o named rc :
  fst (fst (plan o named rc)) =
  (if negb (c_no_rimurc o) && rc then [RIMURC] else []) ++ c_prepend_files o ++
  (if nonempty (c_prepend o) then [cli_PREPEND_TAG] else []) ++
  (if nonempty (c_layout o) then [cli_RESOURCE_TAG ++ c_layout o ++ $"-header.rmu"] else []) ++
  (match named with [] => [cli_STDIN] | _ => named end) ++
  (if nonempty (c_layout o) then [cli_RESOURCE_TAG ++ c_layout o ++ $"-footer.rmu"] else []).
Proof.
  unfold plan. cbn [fst].
  destruct (negb (c_no_rimurc o) && rc); destruct (nonempty (c_prepend o)); destruct (nonempty (c_layout o));
    cbn [app]; rewrite <- ?app_assoc; cbn [app]; rewrite ?app_nil_r; reflexivity.
Qed.

(* the trusted inputs are exactly ~/.rimurc, the prepend files and the --prepend text *)
Theorem plan_trusted o named rc :
  snd (fst (plan o named rc)) =
  (if negb (c_no_rimurc o) && rc then [RIMURC] else []) ++ c_prepend_files o ++
  (if nonempty (c_prepend o) then [cli_PREPEND_TAG] else []).
Proof.
  unfold plan. cbn [fst snd].
  destruct (negb (c_no_rimurc o) && rc); destruct (nonempty (c_prepend o)); cbn [app]; rewrite ?app_nil_r; reflexivity.
Qed.

(* ---- usage errors: exit 1, exactly one message, no output ---- *)
Definition dies (p : parsed) : bool := match p with PDie _ => true | _ => false end.

Theorem missing_value_dies :
  forallb (fun a => dies (parse_args 3 [a] cli0))
          (opt_output ++ opt_prepend ++ opt_prepend_file ++ opt_safe_mode ++ opt_html_replacement ++
           opt_styling_valued ++ opt_layout) = true.
Proof. vm_compute. reflexivity. Qed.

(* evaluate the option-group membership tests of a literal option name *)
Ltac mem_eval a :=
  repeat match goal with
         | |- context [mem a ?l] =>
             let b := eval vm_compute in (mem a l) in
             change (mem a l) with b
         end.

Theorem unknown_layout_dies f v rest o : mem v layout_names = false ->
  parse_args (S f) ($"--layout" :: v :: rest) o = PDie ($"illegal --layout: " ++ v).
Proof.
  intros H. cbn [parse_args]. mem_eval $"--layout". cbn [negb]. rewrite H. reflexivity.
Qed.

Theorem illegal_safe_mode_dies f v rest o :
  match py_int v with PInt n => (n <? 0)%Z || (15 <? n)%Z | _ => true end = true ->
  dies (parse_args (S f) ($"--safe-mode" :: v :: rest) o) = true.
Proof.
  intros H. cbn [parse_args]. mem_eval $"--safe-mode".
  destruct (py_int v) as [n| |]; try reflexivity. rewrite H. reflexivity.
Qed.

Theorem legal_safe_mode_continues f v rest o n :
  py_int v = PInt n -> (0 <= n <= 15)%Z ->
  parse_args (S f) ($"--safe-mode" :: v :: rest) o =
  parse_args f rest (mkCli (Some n) (c_html_replacement o) (c_layout o) (c_no_rimurc o)
                           (c_prepend_files o) (c_pass o) (c_prepend o) (c_outfile o)).
Proof.
  intros H Hn. cbn [parse_args]. mem_eval $"--safe-mode". rewrite H.
  assert (E : (n <? 0)%Z || (15 <? n)%Z = false).
  { apply orb_false_iff. split; apply Z.ltb_ge; lia. }
  rewrite E. reflexivity.
Qed.

Lemma usage_error_result n msg argv env :
  parse_args (S (length argv)) argv cli0 = PDie msg ->
  rimuc_main n argv env = CDone (mkCliRes [] [msg] true None).
Proof. intros H. unfold rimuc_main. rewrite H. reflexivity. Qed.

(* ---- exit status 1 iff a diagnostic was written (when all inputs were read) ---- *)
Lemma render_inputs_count n env o pf : forall files stdin s output err errors out' err' errors',
  render_inputs n env stdin o pf files s output err errors = inr (out', err', errors') ->
  (errors' + length err = errors + length err')%nat /\ (length err <= length err')%nat.
Proof.
  induction files as [|f files IH]; intros stdin s output err errors out' err' errors' H; cbn [render_inputs] in H.
  - inversion H; subst. lia.
  - repeat match type of H with
           | (if ?c then _ else _) = _ => destruct c
           | match ?x with _ => _ end = _ => destruct x eqn:?
           | inl _ = inr _ => discriminate
           end;
    try discriminate;
    try (apply IH in H; rewrite ?rev_append_rev, ?app_length, ?rev_length in H; lia).
Qed.

Lemma render_inputs_die n env o pf : forall files stdin s output err errors r,
  render_inputs n env stdin o pf files s output err errors = inl (CDone r) ->
  r_exit1 r = true /\ r_stderr r <> [] /\ r_stdout r = [] /\ r_outfile r = None.
Proof.
  induction files as [|f files IH]; intros stdin s output err errors r H; cbn [render_inputs] in H; [discriminate|].
  repeat match type of H with
         | (if ?c then _ else _) = _ => destruct c
         | match ?x with _ => _ end = _ => destruct x eqn:?
         end;
  try discriminate; try (eapply IH; eauto; fail);
  inversion H; subst; cbn; repeat split; auto; intros E; apply (f_equal (@length str)) in E;
    rewrite app_length in E; simpl in E; lia.
Qed.

(* exit status 1 iff something was written to standard error, for every invocation that got past option parsing *)
Theorem exit_iff_stderr n argv env r o named :
  parse_args (S (length argv)) argv cli0 = PArgs o named ->
  rimuc_main n argv env = CDone r ->
  (r_exit1 r = true <-> r_stderr r <> []).
Proof.
  intros Hp H. unfold rimuc_main in H. rewrite Hp in H.
  destruct (plan o named _) as [[files pf] outfile].
  destruct (render_inputs _ _ _ _ _ _ _ _ _ _) as [c|[[output err] errors]] eqn:E.
  - subst c. apply render_inputs_die in E as (E1 & E2 & _). split; auto.
  - inversion H; subst. cbn [r_exit1 r_stderr]. apply render_inputs_count in E as [E _]. simpl in E.
    split; intros Hx.
    + apply Nat.ltb_lt in Hx. intros Er. apply (f_equal (@length str)) in Er. rewrite rev_length in Er. simpl in Er. lia.
    + apply Nat.ltb_lt. destruct err; [contradiction|]. simpl in E. lia.
Qed.

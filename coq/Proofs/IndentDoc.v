(* C09: an indented paragraph (one line: spaces, then text over the safe alphabet) renders to <pre><code>escaped text</code></pre>,
   indentation removed, nothing interpreted. *)
From Rimu Require Import Base Unicode Regex RegexAnalysis RegexParse Str Types Tables Guards State Inline Block
  Frame FrameBlock FrameInst OptionsLemmas MiscLemmas MoreLemmas Plain TableFacts Lines PlainDoc
  RegexSem MatchLemmas MatchExact ScanLemmas ParaDoc CodeBlock HeaderDoc MacroSubst MacroDefine MacroDoc.
From Coq Require Import Lia.
Local Open Scope monad_scope.

Definition ind_def : ddef := nth 6 dblocks_default dummy_ddef.
Definition before_ind : list ddef := firstn 6 dblocks_default.
Definition spaces (sp : str) : Prop := sp <> [] /\ forall x, In x sp -> x = 32.
Definition ind_line (sp body : str) : str := sp ++ body.
Definition ind_body_ok (body : str) : Prop := exists b0 t, body = b0 :: t /\ In b0 safe_first /\ over safe_alphabet body.

Lemma ind_facts :
  d_name ind_def = $"indented" /\ d_openTag ind_def = $"<pre><code>" /\ d_closeTag ind_def = $"</code></pre>" /\
  d_verify ind_def = DvNone /\ d_delim ind_def = DfOpening /\ d_content ind_def = CfIndented /\
  d_expand ind_def = mkExpand (Some false) None None None (Some true) /\
  re_ast (d_openRe ind_def) = RSeq (RBol false) (RSeq (RRep true 0 (Some 1) (RLit 92))
     (RSeq (RGrp 1 (RSeq (RRep true 1 None (RSet false [ICat CatSpace false])) (RSeq (RSet false [ICat CatSpace true]) (RRep true 0 None (RAny false)))))
           (REol false))) /\
  re_groups (d_openRe ind_def) = 1%nat /\ wf_exact (re_ast (d_openRe ind_def)) = true /\
  re_ast (d_closeRe ind_def) = RSeq (RBol false) (REol false) /\ is_classinj ind_def = false /\
  forallb (fun r => never_matches safe_alphabet [32] (re_ast r)) (map l_re lineblocks_defs ++ map li_re lists_defs ++ map d_openRe before_ind) = true /\
  re_ast re_delimitedblocks_indentedContentFilter_0 = RSet false [ICat CatSpace true] /\
  re_ast re_delimitedblocks_indentedContentFilter_1 = RAlt (RSet false [ICat CatSpace true]) (REol false) /\
  re_groups re_delimitedblocks_indentedContentFilter_0 = O /\ re_groups re_delimitedblocks_indentedContentFilter_1 = O.
Proof. repeat split; vm_compute; reflexivity. Qed.

Lemma space_facts : set_match false [ICat CatSpace false] 32 = true /\ set_match false [ICat CatSpace true] 32 = false /\ is_space 32 = true.
Proof. repeat split; vm_compute; reflexivity. Qed.

Lemma nonspace_of_first b0 : In b0 safe_first -> set_match false [ICat CatSpace true] b0 = true /\ set_match false [ICat CatSpace false] b0 = false.
Proof.
  intros H. apply safe_first_nonspace in H. unfold is_space in H. unfold set_match, in_items. cbn [existsb in_item xorb negb orb]. unfold in_cat.
  rewrite H. split; reflexivity.
Qed.

Lemma safe_no_nl x : In x safe_alphabet -> x <> 10.
Proof.
  intros Hx E. subst x. pose proof safe_no_special as F. rewrite forallb_forall in F. apply F in Hx. apply andb_prop in Hx as [Hx _]. discriminate Hx.
Qed.

Lemma ind_line_over sp body : spaces sp -> ind_body_ok body -> over safe_alphabet (ind_line sp body).
Proof.
  intros [_ Hsp] (b0 & t & _ & _ & Hb) x Hx. unfold ind_line in Hx. apply in_app_or in Hx as [Hx|Hx]; [|auto].
  rewrite (Hsp x Hx). vm_compute. intuition.
Qed.

(* ---- the opening pattern: one derivation ---- *)
Definition ind_final (L : str) : mst :=
  mkSt (lenN L) (last_of None L) [] [(1%nat, {| c_s := 0; c_e := lenN L; c_txt := L |})].

Lemma ind_derivation sp body s' : spaces sp -> ind_body_ok body ->
  mx (re_ast (d_openRe ind_def)) (mkSt 0 None (ind_line sp body) []) s' -> s' = ind_final (ind_line sp body).
Proof.
  intros [Hne Hsp] (b0 & t & Eb & Hb0 & Hb) M. destruct ind_facts as (_ & _ & _ & _ & _ & _ & _ & Sh & _). rewrite Sh in M. cbn [mx] in M.
  destruct M as (s0 & [-> _] & s1 & (n1 & Hbs & _ & _) & s2 & (s1' & (s1a & (k & Hrun & Hk & _) & s1b & (x & tx & Hrx & Hx & ->) & (n3 & Hany & _)) & ->) & [-> Heol]).
  destruct space_facts as (S1 & S2 & _). destruct (nonspace_of_first b0 Hb0) as (B1 & B2).
  destruct sp as [|c0 sp0] eqn:Esp; [congruence|]. rewrite <- Esp in *.
  assert (Hc0 : c0 = 32) by (apply Hsp; rewrite Esp; left; reflexivity).
  assert (s1 = mkSt 0 None (ind_line sp body) []).
  { eapply (lit_iter_zero 92 n1 _ s1 c0); [exact Hbs|unfold ind_line; rewrite Esp; reflexivity|rewrite Hc0; discriminate]. }
  subst s1. apply iter_set_run in Hrun as (u & Eu & Hu & Hc1 & Hi1 & Hp1 & Hl1). cbn [st_rest st_i st_p st_c] in *.
  rewrite Hrx in Eu. unfold ind_line in Eu. rewrite Eb in Eu.
  (* the run of blanks is the indentation *)
  assert (Hrunu : u = sp /\ x = b0 /\ tx = t).
  { clear - Eu Hsp Hu Hx S2 B2. revert u Eu Hu. induction sp as [|a sp IH]; intros u Eu Hu.
    - destruct u as [|b u]; cbn in Eu; inversion Eu; subst; [auto|]. rewrite Hu in B2 by (left; reflexivity). discriminate.
    - destruct u as [|b u]; cbn in Eu; inversion Eu; subst.
      + rewrite (Hsp x (or_introl eq_refl)) in Hx. rewrite S2 in Hx. discriminate.
      + destruct (IH (fun y Hy => Hsp y (or_intror Hy)) u H1 (fun y Hy => Hu y (or_intror Hy))) as (-> & -> & ->). auto. }
  destruct Hrunu as (-> & -> & ->).
  apply iter_any_run in Hany as (w & Ew & Hc3 & Hi3 & Hp3 & Hl3). cbn [st_rest st_i st_p st_c] in *.
  assert (Hend : st_rest s1' = []).
  { apply AnchoredLine.eol_no_newline; [exact Heol|]. intros y Hy. apply safe_no_nl. apply Hb. rewrite Eb. right. rewrite Ew. apply in_or_app. right. exact Hy. }
  rewrite Hend, app_nil_r in Ew. subst w.
  unfold ind_final, ind_line. rewrite Eb. destruct s1' as [i' p' r' c']. cbn [st_rest st_i st_p st_c] in *. subst.
  rewrite Hi1, Hc1. rewrite !lenN_app. cbn [lenN]. rewrite !last_of_app. cbn [last_of].
  replace (0 + N.succ (lenN sp0) + 1 + lenN t) with (N.succ (lenN sp0) + N.succ (lenN t)) by lia. reflexivity.
Qed.

Lemma ind_exists sp body : spaces sp -> ind_body_ok body ->
  mx (re_ast (d_openRe ind_def)) (mkSt 0 None (ind_line sp body) []) (ind_final (ind_line sp body)).
Proof.
  intros [Hne Hsp] (b0 & t & Eb & Hb0 & Hb). destruct ind_facts as (_ & _ & _ & _ & _ & _ & _ & Sh & _). rewrite Sh. cbn [mx].
  destruct space_facts as (S1 & S2 & _). destruct (nonspace_of_first b0 Hb0) as (B1 & B2).
  unfold ind_final, ind_line. rewrite Eb.
  eexists. split; [split; reflexivity|].
  eexists. split; [exists O; split; [reflexivity|split; [cbn; lia|unfold max_ok; cbn; lia]]|].
  eexists. split.
  { eexists. split; [|reflexivity].
    eexists. split; [exists (length sp); split; [apply iter_set_intro; intros x Hx; rewrite (Hsp x Hx); exact S1|split; [destruct sp; [congruence|cbn [length]; lia]|exact Logic.I]]|].
    eexists. split; [exists b0, t; cbn [st_rest st_i st_p st_c]; split; [reflexivity|split; [exact B1|reflexivity]]|].
    exists (length t). split; [|split; [lia|exact Logic.I]].
    rewrite <- (app_nil_r t) at 2. apply iter_any_intro. intros x Hx. apply safe_no_nl. apply Hb. rewrite Eb. right. exact Hx. }
  cbn [st_rest st_i st_p st_c]. split; [|reflexivity].
  rewrite !lenN_app. cbn [lenN]. rewrite !last_of_app. cbn [last_of].
  replace (0 + lenN sp + 1 + lenN t) with (lenN sp + N.succ (lenN t)) by lia. reflexivity.
Qed.

Lemma ind_match sp body : spaces sp -> ind_body_ok body ->
  exists m, re_search (d_openRe ind_def) (ind_line sp body) = Some m /\
            m_groups m = [Some (ind_line sp body); Some (ind_line sp body)].
Proof.
  intros Hsp Hb. destruct ind_facts as (_ & _ & _ & _ & _ & _ & _ & _ & Hng & Hwf & _). destruct (exec_exact _ Hwf) as [S C].
  set (L := ind_line sp body).
  assert (Hex : match_at (d_openRe ind_def) 0 None L <> None).
  { apply (proj2 (match_at_iff _ _ _ _ Hwf)). exists (ind_final L). apply ind_exists; auto. }
  unfold match_at in Hex.
  destruct (exec (re_ast (d_openRe ind_def)) kfinal 0 None L []) as [[e cc]|] eqn:E; [|cbn in Hex; congruence].
  pose proof E as E'. apply S in E' as (s' & M & Hk). apply (ind_derivation sp body s' Hsp Hb) in M. subst s'.
  unfold kapp, kfinal, ind_final in Hk. cbn [st_i st_p st_rest st_c] in Hk. fold L in Hk. injection Hk as He Hc. subst e cc.
  eexists. split.
  - unfold re_search. apply search_of_match_at. unfold match_at. pose proof E as E2. unfold str, char in E2 |- *. rewrite E2. reflexivity.
  - cbn [option_map mk_mres m_groups]. rewrite Hng. cbn [group_list cap_get Nat.eqb option_map]. unfold cap_text. cbn [c_s c_e c_txt].
    rewrite N.sub_0_r. rewrite !takeN_all. reflexivity.
Qed.

(* ---- the content filter strips the indentation ---- *)
Lemma split_char_none (c : char) : forall (s cur : str), (forall x, In x s -> x <> c) -> split_char_aux c s cur = [frev (frev s ++ cur)].
Proof.
  induction s as [|x t IH]; intros cur H; cbn [split_char_aux].
  - reflexivity.
  - replace (x =? c) with false by (symmetry; apply N.eqb_neq; apply H; left; reflexivity).
    rewrite IH by (intros y Hy; apply H; right; exact Hy). f_equal. rewrite !frev_rev. cbn [rev]. rewrite <- app_assoc. reflexivity.
Qed.

Lemma nonspace_search (r : cre) sp b0 t : re_ast r = RSet false [ICat CatSpace true] -> spaces sp -> In b0 safe_first ->
  exists m, re_search r (sp ++ b0 :: t) = Some m /\ m_start m = lenN sp.
Proof.
  intros Er [_ Hsp] Hb0. destruct space_facts as (_ & S2 & _). destruct (nonspace_of_first b0 Hb0) as (B1 & _).
  assert (Hn : nullable (re_ast r) = false) by (rewrite Er; reflexivity).
  unfold re_search. rewrite (search_from_skip r Hn sp 0 None (b0 :: t)).
  - cbn [search_from]. unfold match_at. rewrite Er. cbn [exec]. rewrite B1. cbn [kfinal option_map mk_mres]. eexists. split; [reflexivity|]. cbn [m_start]. lia.
  - intros x Hx. rewrite Er. cbn [first]. rewrite (Hsp x Hx). exact S2.
Qed.

Lemma nonspace_or_end_from (r : cre) b0 t : re_ast r = RAlt (RSet false [ICat CatSpace true]) (REol false) -> In b0 safe_first ->
  forall sp p i, (forall x, In x sp -> x = 32) -> exists m, search_from r i p (sp ++ b0 :: t) = Some m /\ m_start m = i + lenN sp.
Proof.
  intros Er Hb0. destruct space_facts as (_ & S2 & _). destruct (nonspace_of_first b0 Hb0) as (B1 & _).
  induction sp as [|a sp IH]; intros p i Hsp.
  - cbn [app search_from lenN]. unfold match_at. rewrite Er. cbn [exec]. rewrite B1. cbn [kfinal option_map mk_mres]. eexists. split; [reflexivity|]. cbn [m_start]. lia.
  - cbn [app search_from]. unfold match_at at 1. rewrite Er. cbn [exec]. rewrite (Hsp a (or_introl eq_refl)). rewrite S2.
    replace (32 =? 10) with false by reflexivity. cbn [andb option_map].
    destruct (IH (Some 32) (i + 1) (fun y Hy => Hsp y (or_intror Hy))) as (m & Hm & Hst). exists m. split; [exact Hm|]. rewrite Hst. cbn [lenN]. lia.
Qed.

Lemma nonspace_or_end_search (r : cre) sp b0 t : re_ast r = RAlt (RSet false [ICat CatSpace true]) (REol false) -> spaces sp -> In b0 safe_first ->
  exists m, re_search r (sp ++ b0 :: t) = Some m /\ m_start m = lenN sp.
Proof.
  intros Er [_ Hsp] Hb0. destruct (nonspace_or_end_from r b0 t Er Hb0 sp None 0 Hsp) as (m & Hm & Hst). exists m. split; [exact Hm|]. rewrite Hst. lia.
Qed.

Lemma indented_filter sp body : spaces sp -> ind_body_ok body -> indentedContentFilter (ind_line sp body) = Ok body.
Proof.
  intros Hsp (b0 & t & Eb & Hb0 & Hb). destruct ind_facts as (_ & _ & _ & _ & _ & _ & _ & _ & _ & _ & _ & _ & _ & F0 & F1 & _).
  unfold indentedContentFilter, ind_line. rewrite Eb.
  destruct (nonspace_search _ sp b0 t F0 Hsp Hb0) as (m0 & Hm0 & Hs0). rewrite Hm0, Hs0.
  unfold split_char. rewrite split_char_none.
  - rewrite app_nil_r, !frev_rev, rev_involutive. cbn [map join].
    destruct (nonspace_or_end_search _ sp b0 t F1 Hsp Hb0) as (m1 & Hm1 & Hs1). rewrite Hm1, Hs1. rewrite N.ltb_irrefl.
    rewrite dropN_app_exact. reflexivity.
  - intros x Hx. apply in_app_or in Hx as [Hx|Hx]; [rewrite (proj2 Hsp x Hx); discriminate|]. apply safe_no_nl. apply Hb. rewrite Eb. exact Hx.
Qed.

(* ---- the block ---- *)
Lemma ind_facts_of cd : dcore cd = dcore ind_def ->
  d_name cd = $"indented" /\ d_openTag cd = $"<pre><code>" /\ d_closeTag cd = $"</code></pre>" /\
  d_verify cd = DvNone /\ d_delim cd = DfOpening /\ d_content cd = CfIndented /\
  d_expand cd = mkExpand (Some false) None None None (Some true) /\ d_openRe cd = d_openRe ind_def /\ d_closeRe cd = d_closeRe ind_def.
Proof.
  intros H. destruct (dcore_fields _ _ H) as (E1 & E2 & E3 & E4 & E5 & E6 & E7 & E8).
  destruct ind_facts as (F1 & F2 & F3 & F4 & F5 & F6 & F7 & _ & _ & _ & _ & Fci & _).
  rewrite E1, E2, E3, E4, E5, E6, E7, E8. repeat split; try assumption. apply (dcore_close _ _ H Fci).
Qed.

Section Ind.
Variable fuel : nat.
Variable doc : str -> M str.

Lemma dblock_body_ind sp body s cd m : quiet_default s -> spaces sp -> ind_body_ok body ->
  dcore cd = dcore ind_def -> (forall d0, nth 6 (s_dblocks s) d0 = cd) ->
  m_groups m = [Some (ind_line sp body); Some (ind_line sp body)] ->
  dblock_body fuel doc 6 cd m [] s = Ok (($"<pre><code>" ++ escape body ++ $"</code></pre>", []), s).
Proof.
  intros Hq Hsp Hb Hcd Hnth Hg. pose proof Hq as (Hd & Hr & Hqt & Hp & Ho).
  destruct (ind_facts_of cd Hcd) as (Fname & Fopen & Fclose & Fverify & Fdelim & Fcontent & Fexp & Fre & Fcl).
  unfold dblock_body. rewrite Fdelim.
  unfold grp. rewrite Hg. cbn [nth]. unfold bind at 1. cbn [ret].
  unfold bind at 1. unfold gets at 1. rewrite (Hnth cd). cbn [readTo].
  unfold bind at 1.
  replace (mem (d_name cd) unterminated_names) with false by (rewrite Fname; vm_compute; reflexivity).
  rewrite andb_false_r. cbn [ret tl app].
  unfold bind at 1. unfold gets at 1. rewrite (Hnth cd), Fexp, Ho.
  unfold expand_merge, expand_none. cbn [e_macros e_container e_skip e_spans e_specials truthy].
  assert (Hl : ind_line sp body <> []) by (destruct Hsp as [Hne _]; unfold ind_line; destruct sp; [congruence|discriminate]).
  destruct (ind_line sp body) as [|l0 lt] eqn:El; [congruence|]. rewrite <- El. cbn [app join].
  rewrite Fcontent. rewrite (indented_filter sp body Hsp Hb).
  unfold bind at 1. unfold bind at 1. cbn [ret].
  unfold bind at 1. unfold gets at 1. rewrite (Hnth cd).
  replace (str_eqb (d_name cd) $"html") with false by (rewrite Fname; vm_compute; reflexivity).
  unfold bind at 1. cbn [ret].
  unfold bind at 1. rewrite Fopen.
  change ($"<pre><code>") with (60 :: $"pre><code>"). rewrite inject_nothing_pending by exact Hp.
  unfold bind at 1. unfold lift. unfold replaceInline_top.
  rewrite replaceInline_verbatim by reflexivity.
  cbn [iret log_msgs bind ret].
  unfold bind at 1. unfold gets at 1. rewrite (Hnth _), Fclose.
  replace (str_eqb (d_name cd) $"division") with false by (rewrite Fname; vm_compute; reflexivity).
  cbn [andb ret bind modify].
  assert (Es : forall e, e = expand_none -> set_popts s e = s).
  { intros e ->. destruct s; simpl in *. subst. reflexivity. }
  rewrite Es by reflexivity. rewrite app_nil_r. reflexivity.
Qed.

Lemma dblocks_render_ind sp body s : quiet_default s -> spaces sp -> ind_body_ok body ->
  dblocks_render fuel doc [ind_line sp body] [] s = Ok ((Some ($"<pre><code>" ++ escape body ++ $"</code></pre>"), []), s).
Proof.
  intros Hq Hsp Hb. pose proof Hq as (Hd & _).
  destruct ind_facts as (_ & _ & _ & _ & _ & _ & _ & _ & _ & _ & _ & _ & Fnm & _).
  destruct (std_at (s_dblocks s) 6 dummy_ddef Hd ltac:(lia)) as (pre & cd & post & Esplit & Lpre & Hcd & En & Hnth & Hpre).
  fold ind_def in Hcd. destruct (ind_facts_of cd Hcd) as (Fname & _ & _ & Fv & _ & _ & _ & Fre & _).
  destruct (ind_match sp body Hsp Hb) as (m & Hm & Hg).
  assert (Hfirst : exists t, ind_line sp body = 32 :: t).
  { destruct Hsp as [Hne Hs]. unfold ind_line. destruct sp as [|a sp0]; [congruence|]. rewrite (Hs a (or_introl eq_refl)). cbn [app]. eauto. }
  destruct Hfirst as (t0 & EL).
  unfold dblocks_render. unfold bind at 1. unfold gets at 1. rewrite (std_length _ Hd).
  pose proof (dblock_loop_skip fuel doc (ind_line sp body) s pre [] (cd :: post) 3) as Sk.
  cbn [length app] in Sk. rewrite Lpre in Sk. change (6 + 3)%nat with 9%nat in Sk. change (0 + 6)%nat with 6%nat in Sk.
  rewrite Sk; [|exact Esplit|].
  - change 3%nat with (S 2). rewrite dblock_loop_unfold. unfold bind at 1. unfold gets at 1.
    rewrite En. cbn [andb]. rewrite Fre, Hm.
    assert (G0 : grp0 m = 32 :: t0) by (unfold grp0, grp_s, grp; rewrite Hg; exact EL).
    rewrite G0.
    rewrite Fname. replace (str_eqb $"indented" $"paragraph") with false by reflexivity.
    replace (32 =? 92) with false by reflexivity. unfold db_verify. rewrite Fv. cbn [negb].
    unfold bind at 1. rewrite (dblock_body_ind sp body s cd m Hq Hsp Hb Hcd Hnth Hg). reflexivity.
  - intros d Hdin. destruct (Hpre d Hdin) as (d' & Hd' & -> & _). rewrite EL.
    rewrite forallb_forall in Fnm. eapply never_matches_sound; [apply Fnm; apply in_or_app; right; apply in_or_app; right; apply in_map; exact Hd'|left; reflexivity|].
    pose proof (ind_line_over sp body Hsp Hb) as Ho. rewrite EL in Ho. exact Ho.
Qed.
End Ind.

(* ---- the document ---- *)
Theorem indented_document n sp body s : quiet_default s -> spaces sp -> ind_body_ok body ->
  doc_render (S (S (S n))) (ind_line sp body) s = Ok ($"<pre><code>" ++ escape body ++ $"</code></pre>", s).
Proof.
  intros Hq Hsp Hb.
  change (doc_render (S (S (S n))) (ind_line sp body)) with (doc_loop (S (S n)) (doc_render (S (S n))) (S (S n)) (mk_reader (ind_line sp body))).
  pose proof (ind_line_over sp body Hsp Hb) as Ho.
  assert (Hch : forall x, In x (ind_line sp body) -> is_nl x = false /\ reserved x = false).
  { intros x Hx. apply Ho in Hx. pose proof safe_no_special as F. rewrite forallb_forall in F. apply F in Hx. apply andb_prop in Hx as [H1 H2].
    apply negb_true_iff in H1, H2. auto. }
  rewrite (mk_reader_line _ Hch).
  destruct ind_facts as (_ & _ & _ & _ & _ & _ & _ & _ & _ & _ & _ & _ & Fnm & _). rewrite forallb_forall in Fnm.
  assert (Hfirst : exists t, ind_line sp body = 32 :: t).
  { destruct Hsp as [Hne Hs]. unfold ind_line. destruct sp as [|a sp0]; [congruence|]. rewrite (Hs a (or_introl eq_refl)). cbn [app]. eauto. }
  destruct Hfirst as (t0 & EL).
  assert (Hnm : forall r, In r (map l_re lineblocks_defs ++ map li_re lists_defs) -> re_search r (ind_line sp body) = None).
  { intros r Hr. pose proof Ho as Ho'. rewrite EL in Ho'. rewrite EL. eapply never_matches_sound; [apply Fnm|left; reflexivity|exact Ho'].
    apply in_app_or in Hr as [Hr|Hr]; apply in_or_app; [left; exact Hr|right; apply in_or_app; left; exact Hr]. }
  pose proof (TableFacts.doc_loop_delimited_block (S (S n)) (doc_render (S (S n))) (S n) [ind_line sp body] (ind_line sp body) []
             [ind_line sp body] [ind_line sp body] ($"<pre><code>" ++ escape body ++ $"</code></pre>") [] s s s s) as Hdl.
  unfold reader, str, char in Hdl |- *. rewrite Hdl; clear Hdl.
  - rewrite (TableFacts.doc_loop_blank_only _ _ n [] s) by reflexivity. rewrite app_nil_r. reflexivity.
  - cbn [skipBlankLines]. destruct Hb as (b0 & t & Eb & Hb0 & _).
    assert (Hne : is_empty (strip (ind_line sp body)) = false).
    { unfold ind_line. rewrite Eb. destruct (strip (sp ++ b0 :: t)) eqn:E; [|reflexivity]. exfalso.
      assert (Hl : lstrip (sp ++ b0 :: t) = b0 :: t).
      { destruct Hsp as [_ Hs]. clear - Hs Hb0. induction sp as [|a sp IH]; cbn [app lstrip].
        - rewrite (safe_first_nonspace b0 Hb0). reflexivity.
        - rewrite (Hs a (or_introl eq_refl)). replace (is_space 32) with true by reflexivity. apply IH. intros y Hy. apply Hs. right. exact Hy. }
      unfold strip in E. rewrite Hl in E. pose proof (strip_nonblank b0 t (safe_first_nonspace b0 Hb0)) as Hs2.
      unfold strip in Hs2. cbn [lstrip] in Hs2. rewrite (safe_first_nonspace b0 Hb0) in Hs2. rewrite E in Hs2. discriminate. }
    rewrite Hne. reflexivity.
  - unfold lineblocks_render. apply lineblocks_loop_none. intros d Hd. apply Hnm. apply in_or_app. left. apply in_map. exact Hd.
  - unfold lists_render, bind, matchItem. rewrite matchItem_loop_none; [reflexivity|].
    intros d Hd. apply Hnm. apply in_or_app. right. apply in_map. exact Hd.
  - apply dblocks_render_ind; assumption.
Qed.

(* C08, a container block: a quote block delimited by "" renders to <blockquote> around the recursively rendered content.
   Generic in the nested render; instantiated with a paragraph line as content. *)
From Rimu Require Import Base Unicode Regex RegexAnalysis RegexParse Str Types Tables Guards State Inline Block
  Frame FrameBlock FrameInst OptionsLemmas MiscLemmas MoreLemmas Plain TableFacts Lines PlainDoc
  RegexSem MatchLemmas MatchExact ScanLemmas ParaDoc CodeBlock MacroSubst MacroDefine MacroDoc Compose.
From Coq Require Import Lia.
Local Open Scope monad_scope.

Definition qfence : str := [34; 34].
Definition quote_def : ddef := nth 3 dblocks_default dummy_ddef.
Definition before_quote : list ddef := firstn 3 dblocks_default.
Definition m_qfence : mres := {| m_start := 0; m_end := 2; m_groups := [Some qfence; Some qfence; Some []] |}.

Lemma quote_facts :
  d_name quote_def = $"quote" /\ d_openTag quote_def = $"<blockquote>" /\ d_closeTag quote_def = $"</blockquote>" /\
  d_verify quote_def = DvNone /\ d_delim quote_def = DfClassInj /\ d_content quote_def = CfNone /\
  d_expand quote_def = mkExpand None (Some true) None None (Some true).
Proof. repeat split; reflexivity. Qed.

Lemma qfence_facts :
  forallb (fun d => match re_search (l_re d) qfence with None => true | Some _ => false end) lineblocks_defs = true /\
  forallb (fun d => match re_search (li_re d) qfence with None => true | Some _ => false end) lists_defs = true /\
  forallb (fun d => match re_search (d_openRe d) qfence with None => true | Some _ => false end) before_quote = true /\
  re_search (d_openRe quote_def) qfence = Some m_qfence /\ nlfree qfence.
Proof.
  repeat split; try (vm_compute; reflexivity). intros x [<-|[<-|[]]]; reflexivity.
Qed.

Lemma quote_facts_of cd : dcore cd = dcore quote_def ->
  d_name cd = $"quote" /\ d_openTag cd = $"<blockquote>" /\ d_closeTag cd = $"</blockquote>" /\
  d_verify cd = DvNone /\ d_delim cd = DfClassInj /\ d_content cd = CfNone /\
  d_expand cd = mkExpand None (Some true) None None (Some true) /\ d_openRe cd = d_openRe quote_def.
Proof.
  intros H. destruct (dcore_fields _ _ H) as (E1 & E2 & E3 & E4 & E5 & E6 & E7 & E8).
  destruct quote_facts as (F1 & F2 & F3 & F4 & F5 & F6 & F7).
  rewrite E1, E2, E3, E5, E6, E7, E8. repeat split; assumption.
Qed.

(* the session in which the content of the block is rendered, and the one the block leaves *)
Definition quote_open (s : session) : session := set_popts (set_closeRe 3 (lit_close qfence) s) expand_none.

Lemma quiet_quote_open s : quiet_default s -> quiet_default (quote_open s).
Proof.
  intros (Hd & Hr & Hq & Hp & Ho). unfold quote_open.
  assert (Hstd : dblocks_std (s_dblocks (set_closeRe 3 (lit_close qfence) s))) by (apply std_set_closeRe; [exact Hd|reflexivity|lia]).
  destruct Hp as (P1 & P2 & P3 & P4).
  unfold set_closeRe in *. destruct s; cbn in *. repeat split; assumption.
Qed.

Section Quote.
Variable fuel : nat.
Variable doc : str -> M str.

Lemma dblock_body_quote content rest s cd inner s2 : quiet_default s -> Forall nlfree content -> ~ In qfence content ->
  dcore cd = dcore quote_def -> (forall d0, nth 3 (s_dblocks s) d0 = cd) ->
  doc (join [10] content) (quote_open s) = Ok (inner, s2) -> dblocks_std (s_dblocks s2) ->
  dblock_body (S fuel) doc 3 cd m_qfence (content ++ qfence :: rest) s =
  Ok (($"<blockquote>" ++ inner ++ $"</blockquote>" ++ (match rest with [] => [] | _ => [10] end), rest), set_popts s2 expand_none).
Proof.
  intros Hq Hc Hnot Hcd Hnth Hdoc Hstd2. pose proof Hq as (Hd & Hr & Hqt & Hp & Ho).
  destruct (quote_facts_of cd Hcd) as (Fname & Fopen & Fclose & Fverify & Fdelim & Fcontent & Fexp & Fre).
  unfold dblock_body. rewrite Fdelim.
  unfold bind at 1. cbn [grp_s grp nth m_groups m_qfence]. replace (strip []) with (@nil char) by reflexivity.
  cbn [nonempty is_empty negb]. unfold bind at 1. cbn [ret]. unfold bind at 1. cbn [modify ret].
  set (s1 := set_closeRe 3 (lit_close qfence) s).
  assert (Hn3 : forall d0, nth 3 (s_dblocks s1) d0 =
                mkD (d_name cd) (d_openTag cd) (d_closeTag cd) (d_openRe cd) (lit_close qfence)
                    (d_verify cd) (d_delim cd) (d_content cd) (d_expand cd)).
  { intros d0. unfold s1, set_closeRe. cbn [s_dblocks set_dblocks]. rewrite (nth_set_closeRe (lit_close qfence) d0 3 (s_dblocks s)).
    - rewrite (Hnth d0). reflexivity.
    - rewrite (std_length _ Hd). lia. }
  unfold bind at 1. unfold gets at 1. rewrite Hn3. cbn [d_closeRe].
  rewrite (readTo_fence qfence (proj2 (proj2 (proj2 (proj2 qfence_facts)))) content rest Hc Hnot).
  unfold bind at 1. cbn [andb ret tl]. cbn [app].
  unfold bind at 1. unfold gets at 1. rewrite Hn3. cbn [d_expand]. rewrite Fexp.
  assert (Ho1 : p_opts s1 = expand_none) by exact Ho. rewrite Ho1.
  unfold expand_merge, expand_none. cbn [e_macros e_container e_skip e_spans e_specials truthy].
  rewrite Fcontent.
  unfold bind at 1. unfold bind at 1. cbn [ret].
  unfold bind at 1. unfold gets at 1. rewrite Hn3.
  replace (str_eqb (d_name cd) $"html") with false by (rewrite Fname; vm_compute; reflexivity).
  unfold bind at 1. cbn [ret].
  unfold bind at 1. cbn [d_openTag]. rewrite Fopen.
  assert (Hp1 : pending_empty s1) by exact Hp.
  change ($"<blockquote>") with (60 :: $"blockquote>"). rewrite inject_nothing_pending by exact Hp1.
  unfold bind at 1. unfold bind at 1. cbn [modify]. rewrite Ho1. cbn [e_macros e_skip e_spans e_specials expand_none].
  change (set_popts s1 (mkExpand None None None None None)) with (quote_open s).
  unfold reader, str, char in Hdoc |- *. rewrite Hdoc.
  unfold gets at 1. unfold bind at 1. cbv beta.
  (* the closing tag is read from the session the nested render left *)
  destruct (std_at (s_dblocks s2) 3 dummy_ddef Hstd2 ltac:(lia)) as (pre2 & cd2 & post2 & _ & _ & Hcd2 & _ & Hnth2 & _).
  fold quote_def in Hcd2. destruct (quote_facts_of cd2 Hcd2) as (_ & _ & Fclose2 & _).
  rewrite Hnth2, Fclose2.
  replace (str_eqb (d_name cd) $"division") with false by (rewrite Fname; vm_compute; reflexivity).
  cbn [andb ret bind modify].
  destruct rest as [|r0 rest]; cbn [andb nonempty is_empty negb app]; rewrite <- ?app_assoc; cbn [app]; rewrite ?app_nil_r; reflexivity.
Qed.
End Quote.

Section QuoteDoc.
Variable fuel : nat.
Variable doc : str -> M str.

Lemma dblocks_render_quote content rest s inner s2 : quiet_default s -> Forall nlfree content -> ~ In qfence content ->
  doc (join [10] content) (quote_open s) = Ok (inner, s2) -> dblocks_std (s_dblocks s2) ->
  dblocks_render (S fuel) doc (qfence :: content ++ qfence :: rest) [] s =
  Ok ((Some ($"<blockquote>" ++ inner ++ $"</blockquote>" ++ (match rest with [] => [] | _ => [10] end)), rest), set_popts s2 expand_none).
Proof.
  intros Hq Hc Hnot Hdoc Hstd2. pose proof Hq as (Hd & _).
  destruct qfence_facts as (_ & _ & Fbefore & Fmatch & _).
  destruct (std_at (s_dblocks s) 3 dummy_ddef Hd ltac:(lia)) as (pre & cd & post & Esplit & Lpre & Hcd & En & Hnth & Hpre).
  fold quote_def in Hcd. destruct (quote_facts_of cd Hcd) as (Fname & _ & _ & Fv & _ & _ & _ & Fre).
  unfold dblocks_render. unfold bind at 1. unfold gets at 1. rewrite (std_length _ Hd).
  pose proof (dblock_loop_skip_rest (S fuel) doc qfence (content ++ qfence :: rest) s pre [] (cd :: post) 6) as Sk.
  cbn [length app] in Sk. rewrite Lpre in Sk. change (3 + 6)%nat with 9%nat in Sk. change (0 + 3)%nat with 3%nat in Sk.
  rewrite Sk; [|exact Esplit|].
  - change 6%nat with (S 5). rewrite dblock_loop_unfold. unfold bind at 1. unfold gets at 1.
    rewrite En. cbn [andb]. rewrite Fre. rewrite Fmatch.
    unfold grp0, grp_s, grp. cbn [nth m_groups m_qfence qfence].
    rewrite Fname. replace (str_eqb $"quote" $"paragraph") with false by reflexivity.
    replace (34 =? 92) with false by reflexivity. fold qfence. fold m_qfence.
    unfold db_verify. rewrite Fv. cbn [negb].
    unfold bind at 1. rewrite (dblock_body_quote fuel doc content rest s cd inner s2 Hq Hc Hnot Hcd Hnth Hdoc Hstd2). reflexivity.
  - intros d Hdin. destruct (Hpre d Hdin) as (d' & Hd' & -> & _). exact (none_of (fun d => re_search (d_openRe d) qfence) _ Fbefore d' Hd').
Qed.

(* IN ORDER and RECURSIVELY: a quote block as the first block of any reader renders to <blockquote> around whatever the nested
   render makes of its content, followed by the rendering of the rest *)
Theorem quote_block_then_rest n content rest s inner s2 : quiet_default s -> Forall nlfree content -> ~ In qfence content ->
  doc (join [10] content) (quote_open s) = Ok (inner, s2) -> dblocks_std (s_dblocks s2) ->
  doc_loop (S fuel) doc (S n) (qfence :: content ++ qfence :: rest) s =
  match doc_loop (S fuel) doc n rest (set_popts s2 expand_none) with
  | Ok (r, s3) => Ok ($"<blockquote>" ++ inner ++ $"</blockquote>" ++ match rest with [] => [] | _ => [10] end ++ r, s3)
  | Raise e => Raise e
  | Fuel => Fuel
  end.
Proof.
  intros Hq Hc Hnot Hdoc Hstd2. destruct qfence_facts as (Fl & Fli & _).
  rewrite (TableFacts.doc_loop_delimited_block (S fuel) doc n (qfence :: content ++ qfence :: rest) qfence (content ++ qfence :: rest)
             (qfence :: content ++ qfence :: rest) (qfence :: content ++ qfence :: rest)
             ($"<blockquote>" ++ inner ++ $"</blockquote>" ++ match rest with [] => [] | _ => [10] end) rest s s s (set_popts s2 expand_none)).
  - destruct (doc_loop (S fuel) doc n rest (set_popts s2 expand_none)) as [[r s3]| |]; try reflexivity.
    repeat (rewrite <- app_assoc; cbn [app]). reflexivity.
  - reflexivity.
  - unfold lineblocks_render. apply lineblocks_loop_none_rest. exact (none_of (fun d => re_search (l_re d) qfence) _ Fl).
  - unfold lists_render, bind, matchItem. rewrite matchItem_loop_none_rest; [reflexivity|].
    exact (none_of (fun d => re_search (li_re d) qfence) _ Fli).
  - apply (dblocks_render_quote content rest s inner s2 Hq Hc Hnot Hdoc Hstd2).
Qed.
End QuoteDoc.

(* ---- a quote block holding one paragraph line ---- *)
Lemma quote_open_idem s : p_opts s = expand_none -> set_popts (quote_open s) expand_none = quote_open s.
Proof. intros _. unfold quote_open, set_closeRe. destruct s; reflexivity. Qed.

Theorem quote_paragraph_document n l R s (Hpl : para_line (ienv_of s) l R) : quiet_default s -> l <> qfence ->
  doc_render (S (S (S (S (S (S (S n))))))) (qfence ++ 10 :: l ++ 10 :: qfence) s =
  Ok ($"<blockquote><p>" ++ R ++ $"</p></blockquote>", quote_open s).
Proof.
  intros Hq Hne.
  set (F := S (S (S (S (S (S n)))))).
  change (doc_render (S F) (qfence ++ 10 :: l ++ 10 :: qfence)) with (doc_loop F (doc_render F) F (mk_reader (qfence ++ 10 :: l ++ 10 :: qfence))).
  assert (Hlch : forall x, In x l -> is_nl x = false /\ reserved x = false).
  { intros x Hx. split; [apply (pl_nl _ _ _ Hpl x Hx)|].
    pose proof (pl_res _ _ _ Hpl) as Hr. unfold blank_reserved in Hr. unfold reserved.
    assert (Hm : forall (t : str), map (fun c => if (c =? 0) || (c =? 1) || (c =? 2) then 32 else c) t = t ->
                 forall y, In y t -> (y =? 0) || (y =? 1) || (y =? 2) = false).
    { induction t as [|a t IH]; intros E y Hy; [destruct Hy|]. cbn [map] in E. inversion E as [[E1 E2]]. destruct Hy as [<-|Hy].
      - destruct ((a =? 0) || (a =? 1) || (a =? 2)) eqn:Er; [|reflexivity]. subst a. discriminate Er.
      - apply IH; assumption. }
    apply (Hm l Hr x Hx). }
  assert (Hqch : forall x, In x qfence -> is_nl x = false /\ reserved x = false) by (intros x [<-|[<-|[]]]; split; reflexivity).
  assert (Er : mk_reader (qfence ++ 10 :: l ++ 10 :: qfence) = [qfence; l; qfence]).
  { rewrite Locality.mk_reader_join by (intros x Hx E; subst x; apply Hqch in Hx; destruct Hx as [Hx _]; discriminate Hx).
    rewrite (mk_reader_line _ Hqch). rewrite Locality.mk_reader_join by (intros x Hx E; subst x; apply Hlch in Hx; destruct Hx as [Hx _]; discriminate Hx).
    rewrite (mk_reader_line _ Hlch), (mk_reader_line _ Hqch). reflexivity. }
  rewrite Er.
  assert (Hpl' : para_line (ienv_of (quote_open s)) l R) by (unfold quote_open, set_closeRe; destruct s; exact Hpl).
  assert (Hdoc : doc_render F (join [10] [l]) (quote_open s) = Ok ($"<p>" ++ R ++ $"</p>", quote_open s)).
  { cbn [join]. apply (para_line_document l R n (quote_open s) Hpl' (quiet_quote_open s Hq)). }
  pose proof (quote_block_then_rest (S (S (S (S (S n))))) (doc_render F) (S (S (S (S (S n))))) [l] [] s _ _ Hq
                (Forall_cons l (pl_nl _ _ _ Hpl) (Forall_nil _)) ltac:(intros [E|[]]; apply Hne; exact E) Hdoc
                (proj1 (quiet_quote_open s Hq))) as Hb.
  subst F. cbn [app] in Hb. unfold reader, str, char in Hb |- *. rewrite Hb.
  rewrite (TableFacts.doc_loop_blank_only _ _ (S (S (S (S n)))) [] _) by reflexivity.
  rewrite quote_open_idem by (destruct Hq as (_ & _ & _ & _ & Ho); exact Ho).
  rewrite !app_nil_r. repeat (rewrite <- app_assoc; cbn [app]). reflexivity.
Qed.

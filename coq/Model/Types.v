(* Record and enumeration types shared by the generated tables and the model. *)
From Rimu Require Import Base Regex.

Notation RLit c := (RSet false [IRange c c]).

Fixpoint rseq (l : list regex) : regex :=
  match l with
  | [] => REps
  | [x] => x
  | x :: t => RSeq x (rseq t)
  end.

Fixpoint ralt (l : list regex) : regex :=
  match l with
  | [] => RSet false []   (* matches nothing *)
  | [x] => x
  | x :: t => RAlt x (ralt t)
  end.

Definition rstr (s : str) : regex := rseq (map (fun c => RLit c) s).

(* expansion.Expand *)
Record expand := mkExpand {
  e_macros : option bool; e_container : option bool; e_skip : option bool;
  e_spans : option bool; e_specials : option bool }.

Definition expand_none : expand := mkExpand None None None None None.
Definition truthy (o : option bool) : bool := match o with Some true => true | _ => false end.

(* quotes.Def *)
Record qdef := mkQ { q_quote : str; q_open : str; q_close : str; q_spans : bool }.

(* replacements.Def; the filter is one of the recognised kinds *)
Inductive rfilter := RfNone | RfAnchor | RfHtml | RfEntity.
Record rdef := mkR { r_pat : str; r_flags : N; r_re : cre; r_repl : str; r_filter : rfilter }.

(* delimitedblocks.Def *)
Inductive dverify := DvNone | DvHtml | DvCode.
Inductive dfilter := DfNone | DfOpening | DfClassInj.
Inductive cfilter := CfNone | CfMacroDef | CfHtml | CfIndented | CfQuotePara.
Record ddef := mkD {
  d_name : str; d_openTag : str; d_closeTag : str;
  d_openRe : cre; d_closeRe : cre;
  d_verify : dverify; d_delim : dfilter; d_content : cfilter; d_expand : expand }.

(* lineblocks.Def *)
Inductive lverify := LvNone | LvMacroLine | LvAttributes.
Inductive lfilter := LfNone | LfEmpty | LfBlockDef | LfQuoteDef | LfReplDef | LfMacroDef
                   | LfHeader | LfAnchor | LfApiOption.
Record ldef := mkL { l_re : cre; l_repl : str; l_name : str; l_verify : lverify; l_filter : lfilter }.

(* lists.Def *)
Record listdef := mkLi {
  li_re : cre; li_listOpen : str; li_listClose : str; li_itemOpen : str; li_itemClose : str;
  li_termOpen : str; li_termClose : str }.

(* HTML policy selected by options.htmlSafeModeFilter *)
Inductive policy := PRaw | PDrop | PReplace | PEscape.

(* Model of rimuc.main (the rimupy command): argument loop, input ordering, per-input
   safe mode, error counting, output assembly.  The file system, stdin and the resource
   table are an explicit environment; byte decoding and permissions are not modelled. *)
From Rimu Require Import Base Regex RegexParse Str Types Tables Guards State Inline Block.
Local Open Scope monad_scope.

Record cli_env := mkEnv {
  env_stdin : str;
  env_files : list (str * str);          (* existing regular files: path -> content *)
  env_rimurc : option str;               (* content of ~/.rimurc when it exists *)
  env_resources : list (str * str) }.    (* rimuc.resources *)

Record cli_result := mkCliRes {
  r_stdout : str; r_stderr : list str; r_exit1 : bool; r_outfile : option (str * str) }.

Definition RIMURC : str := $"~/.rimurc".

Definition grp_list (k : nat) : list str := nth k cli_lists [].
Definition opt_help := grp_list 0.   Definition opt_version := grp_list 1.  Definition opt_lint := grp_list 2.
Definition opt_output := grp_list 3. Definition opt_pass := grp_list 4.     Definition opt_prepend := grp_list 5.
Definition opt_prepend_file := grp_list 6. Definition opt_no_rimurc := grp_list 7.
Definition opt_safe_mode := grp_list 8. Definition opt_html_replacement := grp_list 9.
Definition opt_styling := grp_list 10. Definition opt_styling_valued := grp_list 11.
Definition opt_layout := grp_list 12. Definition layout_names := grp_list 13. Definition opt_styled := grp_list 14.

Record cli_opts := mkCli {
  c_safe_mode : option Z; c_html_replacement : option str; c_layout : str; c_no_rimurc : bool;
  c_prepend_files : list str; c_pass : bool; c_prepend : str; c_outfile : str }.

Definition cli0 : cli_opts := mkCli None None [] false [] false [] [].

Inductive parsed :=
| PDie (msg : str)
| PHelp
| PVersion
| PArgs (o : cli_opts) (files : list str).

Definition missing (arg : str) : parsed := PDie ($"missing " ++ arg ++ $" option value").

Fixpoint parse_args (fuel : nat) (args : list str) (o : cli_opts) : parsed :=
  match fuel with
  | O => PArgs o args
  | S f =>
      match args with
      | [] => PArgs o []
      | arg :: rest =>
          if mem arg opt_help then PHelp
          else if mem arg opt_version then PVersion
          else if mem arg opt_lint then parse_args f rest o
          else if mem arg opt_output then
            match rest with
            | [] => missing arg
            | v :: rest' => parse_args f rest' (mkCli (c_safe_mode o) (c_html_replacement o) (c_layout o) (c_no_rimurc o)
                                                      (c_prepend_files o) (c_pass o) (c_prepend o) v)
            end
          else if mem arg opt_pass then
            parse_args f rest (mkCli (c_safe_mode o) (c_html_replacement o) (c_layout o) (c_no_rimurc o)
                                     (c_prepend_files o) true (c_prepend o) (c_outfile o))
          else if mem arg opt_prepend then
            match rest with
            | [] => missing arg
            | v :: rest' => parse_args f rest' (mkCli (c_safe_mode o) (c_html_replacement o) (c_layout o) (c_no_rimurc o)
                                                      (c_prepend_files o) (c_pass o) (c_prepend o ++ v ++ [10]) (c_outfile o))
            end
          else if mem arg opt_prepend_file then
            match rest with
            | [] => missing arg
            | v :: rest' => parse_args f rest' (mkCli (c_safe_mode o) (c_html_replacement o) (c_layout o) (c_no_rimurc o)
                                                      (c_prepend_files o ++ [v]) (c_pass o) (c_prepend o) (c_outfile o))
            end
          else if mem arg opt_no_rimurc then
            parse_args f rest (mkCli (c_safe_mode o) (c_html_replacement o) (c_layout o) true
                                     (c_prepend_files o) (c_pass o) (c_prepend o) (c_outfile o))
          else if mem arg opt_safe_mode then
            match rest with
            | [] => missing arg
            | v :: rest' =>
                match py_int v with
                | PInt n =>
                    if (n <? 0)%Z || (15 <? n)%Z then PDie ($"illegal --safe-mode option value: " ++ str_of_Z n)
                    else parse_args f rest' (mkCli (Some n) (c_html_replacement o) (c_layout o) (c_no_rimurc o)
                                                   (c_prepend_files o) (c_pass o) (c_prepend o) (c_outfile o))
                | _ => PDie ($"illegal --safe-mode option value: " ++ v)
                end
            end
          else if mem arg opt_html_replacement then
            match rest with
            | [] => missing arg
            | v :: rest' => parse_args f rest' (mkCli (c_safe_mode o) (Some v) (c_layout o) (c_no_rimurc o)
                                                      (c_prepend_files o) (c_pass o) (c_prepend o) (c_outfile o))
            end
          else if mem arg opt_styling then
            if mem arg opt_styling_valued then
              match rest with
              | [] => missing arg
              | v :: rest' =>
                  parse_args f rest' (mkCli (c_safe_mode o) (c_html_replacement o) (c_layout o) (c_no_rimurc o)
                     (c_prepend_files o) (c_pass o) (c_prepend o ++ $"{" ++ arg ++ $"}='" ++ v ++ $"'" ++ [10]) (c_outfile o))
              end
            else
              parse_args f rest (mkCli (c_safe_mode o) (c_html_replacement o) (c_layout o) (c_no_rimurc o)
                 (c_prepend_files o) (c_pass o) (c_prepend o ++ $"{" ++ arg ++ $"}='true'" ++ [10]) (c_outfile o))
          else if mem arg opt_layout then
            match rest with
            | [] => missing arg
            | v :: rest' =>
                if negb (mem v layout_names) then PDie ($"illegal --layout: " ++ v)
                else parse_args f rest' (mkCli (c_safe_mode o) (c_html_replacement o) v (c_no_rimurc o)
                       (c_prepend_files o) (c_pass o) (c_prepend o ++ $"{--header-ids}='true'" ++ [10]) (c_outfile o))
            end
          else if mem arg opt_styled then
            parse_args f rest (mkCli (c_safe_mode o) (c_html_replacement o) $"sequel" (c_no_rimurc o)
               (c_prepend_files o) (c_pass o)
               (c_prepend o ++ $"{--header-ids}='true'" ++ [10] ++ $"{--no-toc}='true'" ++ [10]) (c_outfile o))
          else PArgs o args     (* source file names *)
      end
  end.

(* os.path.splitext *)
Fixpoint last_index (c : char) (s : str) (i : N) (acc : option N) : option N :=
  match s with
  | [] => acc
  | x :: t => last_index c t (i + 1) (if x =? c then Some i else acc)
  end.

Definition splitext (p : str) : str * str :=
  let base_start := match last_index 47 p 0 None with Some i => i + 1 | None => 0 end in
  let base := dropN base_start p in
  match last_index 46 base 0 None with
  | None => (p, [])
  | Some d =>
      (* the dot must be preceded by a character that is not a dot *)
      if existsb (fun x => negb (x =? 46)) (takeN d base)
      then (takeN (base_start + d) p, dropN (base_start + d) p)
      else (p, [])
  end.

(* the ordered list of inputs: (~/.rimurc), prepend files, --prepend text, layout header, inputs, layout footer *)
Definition plan (o : cli_opts) (named : list str) (rimurc_exists : bool) : list str * list str * str :=
  let files := match named with [] => [cli_STDIN] | _ => named end in
  let outfile :=
    match named with
    | [f] => if nonempty (c_layout o) && negb (str_eqb f cli_STDIN) && is_empty (c_outfile o)
             then fst (splitext f) ++ $".html" else c_outfile o
    | _ => c_outfile o
    end in
  let files := if nonempty (c_layout o)
               then (cli_RESOURCE_TAG ++ c_layout o ++ $"-header.rmu") :: files ++ [cli_RESOURCE_TAG ++ c_layout o ++ $"-footer.rmu"]
               else files in
  let pf := if negb (c_no_rimurc o) && rimurc_exists then RIMURC :: c_prepend_files o else c_prepend_files o in
  let pf := if nonempty (c_prepend o) then pf ++ [cli_PREPEND_TAG] else pf in
  (pf ++ files, pf, outfile).

Fixpoint assoc_str (k : str) (l : list (str * str)) : option str :=
  match l with [] => None | (a, b) :: t => if str_eqb a k then Some b else assoc_str k t end.

Definition clip (msg : str) : str :=
  if 120 <? lenN msg then takeN 117 msg ++ $"..." else msg.

Inductive cli_out :=
| CDone (r : cli_result)
| CRaise (e : exn)
| CFuel.

(* the render loop: session, accumulated output, stderr lines (reversed), error count *)
Fixpoint render_inputs (n : nat) (env : cli_env) (stdin : str) (o : cli_opts) (pf : list str) (files : list str)
         (s : session) (output : str) (err : list str) (errors : nat) : cli_out + (str * list str * nat) :=
  match files with
  | [] => inr (output, err, errors)
  | infile :: rest =>
      let user_mode := match c_safe_mode o with Some m => PyInt m | None => PyNone end in
      (* sys.stdin.read() returns the whole input once, then the empty string *)
      let stdin' := if str_eqb infile cli_STDIN then [] else stdin in
      let step (source : str) (mode : pyval) (ext : str) (name : str) :=
        if str_eqb ext $".html" || (c_pass o && str_eqb infile cli_STDIN) then
          let src := strip source in
          render_inputs n env stdin' o pf rest s (match src with [] => output | _ => output ++ src ++ [10] end) err errors
        else
          let opts := mkOpts mode (match c_html_replacement o with Some r => PyStr r | None => PyNone end) PyNone true in
          match api_render n source opts s with
          | Raise e => inl (CRaise e)
          | Fuel => inl CFuel
          | Ok (html, s') =>
              let k := (length (s_log s') - length (s_log s))%nat in
              let new := rev (firstn k (s_log s')) in
              let lines := map (fun m => clip ($"error: " ++ name ++ $": " ++ snd m)) (filter fst new) in
              let src := strip html in
              render_inputs n env stdin' o pf rest s' (match src with [] => output | _ => output ++ src ++ [10] end)
                            (rev_append lines err) (errors + length lines)
          end in
      if starts_with cli_RESOURCE_TAG infile then
        let name := dropN (lenN cli_RESOURCE_TAG) infile in
        match assoc_str name (env_resources env) with
        | None => inl (CDone (mkCliRes [] (rev (($"missing resource: " ++ name) :: err)) true None))
        | Some src => step src (PyInt 0) [] name
        end
      else if str_eqb infile cli_STDIN then step stdin user_mode [] $"/dev/stdin"
      else if str_eqb infile cli_PREPEND_TAG then step (c_prepend o) (PyInt 0) [] infile
      else
        let content := if str_eqb infile RIMURC then env_rimurc env else assoc_str infile (env_files env) in
        match content with
        | None => inl (CDone (mkCliRes [] (rev (($"source file does not exist: " ++ infile) :: err)) true None))
        | Some src =>
            step src (if mem infile pf then PyInt 0 else user_mode) (snd (splitext infile)) infile
        end
  end.

Definition rimuc_main (n : nat) (argv : list str) (env : cli_env) : cli_out :=
  match parse_args (S (length argv)) argv cli0 with
  | PDie msg => CDone (mkCliRes [] [msg] true None)
  | PHelp =>
      match assoc_str $"manpage.txt" (env_resources env) with
      | None => CDone (mkCliRes [] [$"missing resource: manpage.txt"] true None)
      | Some man => CDone (mkCliRes ([10] ++ re_sub re_rimuc_main_0 (fun _ => cli_NAME) man ++ [10]) [] false None)
      end
  | PVersion => CDone (mkCliRes (cli_VERSION ++ [10]) [] false None)
  | PArgs o named =>
      let '(files, pf, outfile) := plan o named (match env_rimurc env with Some _ => true | None => false end) in
      match render_inputs n env (env_stdin env) o pf files S0 [] [] 0 with
      | inl r => r
      | inr (output, err, errors) =>
          let out := strip output in
          let to_stdout := is_empty outfile || str_eqb outfile $"-" in
          CDone (mkCliRes (if to_stdout then out else []) (rev err) (Nat.ltb 0 errors)
                          (if to_stdout then None else Some (outfile, out)))
      end
  end.

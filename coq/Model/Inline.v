(* Inline layer: utils.replaceMatch/replaceInline, macros.render, quotes, spans.
   These functions only read the session; they return text and diagnostics. *)
From Rimu Require Import Base Regex RegexParse Str Types Tables Guards State.
Local Open Scope monad_scope.

(* ---- Python int() on a str ---- *)
Inductive pint := PInt (z : Z) | PInvalid | PTooLong.

(* digits with single underscores between them *)
Fixpoint int_digits (s : str) (acc : N) (cnt : N) (prev_digit : bool) : option (N * N) :=
  match s with
  | [] => if prev_digit then Some (acc, cnt) else None
  | x :: t =>
      match digit_val x with
      | Some d => int_digits t (acc * 10 + d) (cnt + 1) true
      | None => if (x =? 95) && prev_digit then int_digits t acc cnt false else None
      end
  end.

Definition py_int (s : str) : pint :=
  let s := strip s in
  let '(neg, body) := match s with
                      | 45 :: t => (true, t)
                      | 43 :: t => (false, t)
                      | _ => (false, s)
                      end in
  match body with
  | [] => PInvalid
  | _ => match int_digits body 0 0 false with
         | Some (n, cnt) => if 4300 <? cnt then PTooLong
                            else PInt (if neg then (- Z.of_N n)%Z else Z.of_N n)
         | None => PInvalid
         end
  end.

Definition py_str (v : pyval) : str :=
  match v with
  | PyNone => $"None"
  | PyBool true => $"True"
  | PyBool false => $"False"
  | PyInt z => str_of_Z z
  | PyFloat r _ _ => r
  | PyStr s => s
  end.

(* ---- monadic helpers ---- *)
Fixpoint imapM {A B} (f : A -> I B) (l : list A) : I (list B) :=
  match l with
  | [] => iret []
  | x :: t => y <-i f x ;; ys <-i imapM f t ;; iret (y :: ys)
  end.

(* re.sub with a callback that may log / raise *)
Definition isub (r : cre) (f : mres -> I str) (s : str) : I str :=
  let '(l, tl) := re_scan r s in
  parts <-i imapM (fun bm => x <-i f (snd bm) ;; iret (fst bm ++ x)) l ;;
  iret (concat parts ++ tl).

Definition of_res {A} (r : Res A) : I A :=
  match r with Ok a => iret a | Raise e => Raise e | Fuel => Fuel end.

(* ---- options ---- *)
Definition htmlSafeModeFilter (s : ienv) (html : str) : str :=
  match html_policy (en_mode s) with
  | PRaw => html
  | PDrop => []
  | PReplace => en_repl s
  | PEscape => escape html
  end.

(* ---- macros.getValue ---- *)
Fixpoint assoc_get (name : str) (l : list (str * str)) : option str :=
  match l with
  | [] => None
  | (n, v) :: t => if str_eqb n name then Some v else assoc_get name t
  end.
Definition getValue (s : ienv) (name : str) : option str := assoc_get name (en_macros s).

(* ---- utils.replaceInline ---- *)
Definition replaceInline (mr sr : str -> I str) (text : option str) (e : expand) : I str :=
  match text with
  | None => iraise ExNoneGroup
  | Some t =>
      r1 <-i (if truthy (e_macros e) then mr t else iret t) ;;
      if truthy (e_spans e) then sr r1
      else if truthy (e_specials e) then iret (escape r1)
      else iret r1
  end.

(* ---- utils.replaceMatch: $n / $$n substitution; the expand object is updated
        cumulatively while the replacement template is scanned ---- *)
Fixpoint replaceMatch_segs (mr sr : str -> I str) (m : mres) (ngroups : nat)
         (segs : list (str * mres)) (e : expand) : I str :=
  match segs with
  | [] => iret []
  | (before, dm) :: t =>
      let e' := if str_eqb (grp_s dm 1) $"$$"
                then mkExpand (e_macros e) (e_container e) (e_skip e) (Some true) (e_specials e)
                else mkExpand (e_macros e) (e_container e) (e_skip e) (e_spans e) (Some true) in
      let i := match grp_s dm 2 with
               | [d] => match digit_val d with Some v => N.to_nat v | None => O end
               | _ => O
               end in
      x <-i (if Nat.ltb ngroups i
             then ierr ($"undefined replacement group: " ++ grp0 dm) ;;;i iret []
             else
               (* `match[i] or ''`: a non-participating group is blank *)
               t <-i replaceInline mr sr (Some (grp_s m i)) e' ;;
               (* a single-$ group lands in an attribute value: a double quote becomes the entity quot *)
               iret (if str_eqb (grp_s dm 1) $"$" && negb (truthy (e_spans e'))
                     then replace_all [34] $"&quot;" t else t)) ;;
      rest <-i replaceMatch_segs mr sr m ngroups t e' ;;
      iret (before ++ x ++ rest)
  end.

Definition replaceMatch (mr sr : str -> I str) (m : mres) (ngroups : nat)
           (replacement : str) (e : expand) : I str :=
  let '(segs, tl) := re_scan re_utils_replaceMatch_0 replacement in
  x <-i replaceMatch_segs mr sr m ngroups segs e ;;
  iret (x ++ tl).

(* ---- macros.render ---- *)
Definition int_of_digits (s : str) : pint := py_int s.

Definition param_repl (sr : str -> I str) (paramsList : list str) (mr : mres) : I str :=
  let m0 := grp0 mr in
  if starts_with [92] m0 then iret (tl m0) else
  let p1 := grp_s mr 1 in
  let p3 := grp_s mr 3 in
  let p4 := grp_s mr 4 in
  match py_int (grp_s mr 2) with
  | PTooLong => iraise ExIntTooLong
  | PInvalid => iraise ExAssert
  | PInt p2 =>
      if (p2 =? 0)%Z then iret m0 else
      let param := if (Z.of_nat (length paramsList) <? p2)%Z then []
                   else nth (Z.to_nat p2 - 1) paramsList [] in
      let param :=
        if nonempty p3 then
          if starts_with [92] p3 then param ++ tl p3
          else if is_empty param then replace_all $"\$" $"$" p4
          else param
        else param in
      if str_eqb p1 $"$$" then sr param else iret param
  end.

Definition macro_repl (sr : str -> I str) (s : ienv) (text : str) (silent : bool)
           (simple : bool) (m : mres) : I str :=
  let m0 := grp0 m in
  if starts_with [92] m0 then iret (tl m0) else
  let params := grp_s m 2 in
  if starts_with [63] params then
    (if silent then iret tt else ierr ($"existential macro invocations are deprecated: " ++ m0)) ;;;i
    iret m0
  else
  let name := grp_s m 1 in
  match getValue s name with
  | None =>
      (if silent then iret tt else ierr ($"undefined macro: " ++ m0 ++ $": " ++ text)) ;;;i
      iret m0
  | Some value =>
      if simple then iret value else
      let params := replace_all $"\}" $"}" params in
      match params with
      | [] => iraise ExIndex
      | c :: ptail =>
          if c =? 124 then
            isub re_macros_render_repl_0 (param_repl sr (split_char 124 ptail)) value
          else if (c =? 33) || (c =? 61) then
            let pattern := ptail in
            match parse_regex (re_macros_render_repl_1_prefix ++ pattern ++ re_macros_render_repl_1_suffix)
                              false false with
            | PUnsupported => iraise ExUnsupported
            | PError =>
                (if silent then iret tt
                 else ierr ($"illegal macro regular expression: " ++ pattern ++ $": " ++ text)) ;;;i
                iret m0
            | POk rx =>
                let skip := match re_match rx value with None => true | Some _ => false end in
                let skip := if c =? 33 then negb skip else skip in
                iret (if skip then [2] else [])
            end
          else
            ierr ($"illegal macro syntax: " ++ m0) ;;;i iret []
      end
  end.

Definition macros_render (sr : str -> I str) (s : ienv) (text : str) (silent : bool) : I str :=
  r1 <-i isub re_macros_render_1 (macro_repl sr s text silent true) text ;;
  r2 <-i isub re_macros_render_0 (macro_repl sr s text silent false) r1 ;;
  if existsb (N.eqb 2) r2
  then iret (join [10] (filter (fun line => negb (existsb (N.eqb 2) line)) (split_char 10 r2)))
  else iret r2.

(* ---- quotes ---- *)
Definition quote_alts (qs : list qdef) : regex := ralt (map (fun d => rstr (q_quote d)) qs).
Definition quotesRe (qs : list qdef) : cre := re_quotes_initializeRegExps_0_of (quote_alts qs).
Definition unescapeRe (qs : list qdef) : cre := re_quotes_initializeRegExps_1_of (quote_alts qs).

Fixpoint quote_getDefinition (qs : list qdef) (q : str) : option qdef :=
  match qs with
  | [] => None
  | d :: t => if str_eqb (q_quote d) q then Some d else quote_getDefinition t q
  end.

Definition quotes_unescape (qs : list qdef) (s : str) : str :=
  re_sub (unescapeRe qs) (fun m => grp_s m 1) s.

(* ---- spans ---- *)
Record frag := mkFrag { f_text : str; f_done : bool; f_verb : str }.
Definition undone (t : str) : frag := mkFrag t false [].
Definition done (t : str) : frag := mkFrag t true [].

(* the escaped-quote skip loop at the head of fragQuote *)
Fixpoint find_quote (n : nat) (qre : cre) (text : str) (nextIndex : N) : Res (option mres) :=
  match n with
  | O => Fuel
  | S n' =>
      match re_search_pos qre text nextIndex with
      | None => Ok None
      | Some m =>
          if starts_with [92] (grp0 m)
          then find_quote n' qre text (m_start m + lenN (grp_s m 1) + 1)
          else Ok (Some m)
      end
  end.

Fixpoint count_lead (c : char) (s : str) : N * str :=
  match s with
  | x :: t => if x =? c then let '(k, r) := count_lead c t in (N.succ k, r) else (0, s)
  | [] => (0, [])
  end.

Fixpoint repeatN {A} (x : A) (fuel : list unit) : list A :=
  match fuel with [] => [] | _ :: t => x :: repeatN x t end.

Fixpoint fragQuote (n : nat) (qs : list qdef) (qre : cre) (text : str) : Res (list frag) :=
  match n with
  | O => Fuel
  | S n' =>
      match find_quote n' qre text 0 with
      | Fuel => Fuel
      | Raise e => Raise e
      | Ok None => Ok [undone text]
      | Ok (Some m) =>
          let quote := grp_s m 1 in
          match quote_getDefinition qs quote with
          | None => Raise ExAssert
          | Some qdef =>
              let q0 := hd 0 quote in
              let after0 := dropN (m_end m) text in
              let lead := fst (count_lead q0 after0) in
              let after := snd (count_lead q0 after0) in
              let quoted := grp_s m 2 ++ takeN lead after0 in
              let before := takeN (m_start m) text in
              let inner :=
                if negb (q_spans qdef)
                then Ok [done (replace_char 0 1 (escape quoted))]
                else fragQuote n' qs qre quoted in
              match inner with
              | Fuel => Fuel
              | Raise e => Raise e
              | Ok mid =>
                  match fragQuote n' qs qre after with
                  | Fuel => Fuel
                  | Raise e => Raise e
                  | Ok rest =>
                      Ok (undone before :: done (q_open qdef) :: mid ++ done (q_close qdef) :: rest)
                  end
              end
          end
      end
  end.

Fixpoint res_concat_map {A B} (f : A -> Res (list B)) (l : list A) : Res (list B) :=
  match l with
  | [] => Ok []
  | x :: t => match f x with
              | Ok a => match res_concat_map f t with
                        | Ok b => Ok (a ++ b)
                        | Raise e => Raise e
                        | Fuel => Fuel
                        end
              | Raise e => Raise e
              | Fuel => Fuel
              end
  end.

Definition fragQuotes (n : nat) (qs : list qdef) (frags : list frag) : Res (list frag) :=
  let qre := quotesRe qs in
  match res_concat_map (fun f => if f_done f then Ok [f] else fragQuote n qs qre (f_text f)) frags with
  | Ok l => Ok (map (fun f => if f_done f then f
                              else mkFrag (quotes_unescape qs (f_text f)) false (f_verb f)) l)
  | Raise e => Raise e
  | Fuel => Fuel
  end.

Section Spans.
Variable s : ienv.
Variable sr : str -> I str.    (* nested spans.render *)

Definition no_macros : str -> I str := fun t => iret t.

Definition replacement_text (rdef : rdef) (m : mres) : I str :=
  let m0 := grp0 m in
  if starts_with [92] m0 then iret (escape (tl m0))
  else
    let ng := re_groups (r_re rdef) in
    match r_filter rdef with
    | RfNone => replaceMatch no_macros sr m ng (r_repl rdef) expand_none
    | RfAnchor => if skipBlockAttributes (en_mode s) then iret []
                  else replaceMatch no_macros sr m ng (r_repl rdef) expand_none
    | RfHtml => match grp m 1 with
                | Some g => iret (htmlSafeModeFilter s g)
                | None => iraise ExNoneGroup
                end
    | RfEntity => match grp m 1 with Some g => iret g | None => iraise ExNoneGroup end
    end.

Fixpoint fragReplacement (n : nat) (rdef : rdef) (text : str) : I (list frag) :=
  match n with
  | O => Fuel
  | S n' =>
      match re_search (r_re rdef) text with
      | None => iret [undone text]
      | Some m =>
          let before := takeN (m_start m) text in
          let after := dropN (m_end m) text in
          rep <-i replacement_text rdef m ;;
          rest <-i fragReplacement n' rdef after ;;
          iret (undone before :: mkFrag rep true (grp0 m) :: rest)
      end
  end.

Fixpoint iconcat_map {A B} (f : A -> I (list B)) (l : list A) : I (list B) :=
  match l with
  | [] => iret []
  | x :: t => a <-i f x ;; b <-i iconcat_map f t ;; iret (a ++ b)
  end.

Fixpoint fragReplacements (n : nat) (defs : list rdef) (frags : list frag) : I (list frag) :=
  match defs with
  | [] => iret frags
  | d :: ds =>
      tmp <-i iconcat_map (fun f => if f_done f then iret [f] else fragReplacement n d (f_text f)) frags ;;
      fragReplacements n ds tmp
  end.

Definition frag_placeholder_text (frags : list frag) : str :=
  flat_map (fun f => if f_done f then [0] else f_text f) frags.

Fixpoint postReplacements (segs : list (str * mres)) (saved : list frag) : Res str :=
  match segs with
  | [] => Ok []
  | (before, m) :: t =>
      match saved with
      | [] => Raise ExPopEmpty
      | f :: saved' =>
          match postReplacements t saved' with
          | Ok rest =>
              Ok (before ++ (if str_eqb (grp0 m) [0] then f_text f else escape (f_verb f)) ++ rest)
          | Raise e => Raise e
          | Fuel => Fuel
          end
      end
  end.

Definition spans_body (n : nat) (source : str) : I str :=
  frags <-i fragReplacements n (en_repls s) [undone source] ;;
  let saved := filter f_done frags in
  let text := frag_placeholder_text frags in
  qfrags <-i of_res (fragQuotes n (en_quotes s) [undone text]) ;;
  let result := flat_map (fun f => if f_done f then f_text f else escape (f_text f)) qfrags in
  let '(segs, tl) := re_scan re_spans_postReplacements_0 result in
  r <-i of_res (postReplacements segs saved) ;;
  iret (r ++ tl).
End Spans.

Fixpoint spans_render (n : nat) (s : ienv) (source : str) : I str :=
  match n with
  | O => Fuel
  | S n' => spans_body s (spans_render n' s) n' source
  end.

(* entry points used by the block layer *)
Definition macros_render_top (n : nat) (s : ienv) (text : str) (silent : bool) : I str :=
  macros_render (spans_render n s) s text silent.

Definition replaceInline_top (n : nat) (s : ienv) (text : option str) (e : expand) : I str :=
  replaceInline (fun t => macros_render_top n s t false) (spans_render n s) text e.

Definition replaceMatch_top (n : nat) (s : ienv) (m : mres) (ngroups : nat)
           (replacement : str) (e : expand) : I str :=
  replaceMatch (fun t => macros_render_top n s t false) (spans_render n s) m ngroups replacement e.

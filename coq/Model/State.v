(* Session state (all module-level mutable state of rimu-py), result monads. *)
From Rimu Require Import Base Regex Str Types Tables.

(* Places where the Python can raise. *)
Inductive exn :=
| ExReError        (* re.error from re.compile of an author-supplied pattern *)
| ExNoneGroup      (* a non-participating group reaches a str method *)
| ExPopEmpty       (* pop from an empty list (savedReplacements / lists.ids) *)
| ExIntTooLong     (* int() of more than 4300 digits *)
| ExAssert         (* an assert statement fails *)
| ExIndex          (* string index out of range *)
| ExUnsupported    (* outside the modelled subset (pattern syntax); the case is skipped *)
| ExFilter.        (* a content filter's own pattern does not match the text its block pattern matched *)

Inductive Res (A : Type) := Ok (a : A) | Raise (e : exn) | Fuel.
Arguments Ok {A} a.
Arguments Raise {A} e.
Arguments Fuel {A}.

(* Python values that can reach the API as option values. *)
Inductive pyval :=
| PyNone
| PyBool (b : bool)
| PyInt (z : Z)
| PyFloat (repr : str) (is0 is1 : bool)
| PyStr (s : str).

Record opts := mkOpts {
  o_safeMode : pyval; o_htmlReplacement : pyval; o_reset : pyval; o_callback : bool }.

Record session := mkSession {
  s_mode : Z;                   (* options.safeMode; -1 = never initialised *)
  s_repl : str;                 (* options.htmlReplacement *)
  s_cb : bool;                  (* options.callback is not None *)
  s_quotes : list qdef;         (* quotes.defs (quotesRe / unescapeRe are functions of it) *)
  s_repls : list rdef;          (* replacements.defs *)
  s_dblocks : list ddef;        (* delimitedblocks.defs *)
  s_macros : list (str * str);  (* macros.defs *)
  p_classes : str; p_id : str; p_css : str; p_attrs : str;   (* blockattributes pending *)
  p_opts : expand;              (* blockattributes.opts *)
  s_ids : list str;             (* blockattributes.ids *)
  s_listids : list str;         (* lists.ids, top of stack last *)
  s_log : list (bool * str)     (* diagnostics, newest first; flag = delivered to a callback *)
}.

(* what the inline layer may read *)
Record ienv := mkIenv {
  en_mode : Z; en_repl : str; en_quotes : list qdef; en_repls : list rdef; en_macros : list (str * str) }.
Definition ienv_of (s : session) : ienv :=
  mkIenv (s_mode s) (s_repl s) (s_quotes s) (s_repls s) (s_macros s).

(* The interpreter state before the first render call. *)
Definition S0 : session :=
  mkSession (-1)%Z [] false [] [] [] [] [] [] [] [] expand_none [] [] [].

Definition set_mode (s : session) (v : Z) : session :=
  mkSession v (s_repl s) (s_cb s) (s_quotes s) (s_repls s) (s_dblocks s) (s_macros s)
            (p_classes s) (p_id s) (p_css s) (p_attrs s) (p_opts s) (s_ids s) (s_listids s) (s_log s).
Definition set_repl (s : session) (v : str) : session :=
  mkSession (s_mode s) v (s_cb s) (s_quotes s) (s_repls s) (s_dblocks s) (s_macros s)
            (p_classes s) (p_id s) (p_css s) (p_attrs s) (p_opts s) (s_ids s) (s_listids s) (s_log s).
Definition set_cb (s : session) (v : bool) : session :=
  mkSession (s_mode s) (s_repl s) v (s_quotes s) (s_repls s) (s_dblocks s) (s_macros s)
            (p_classes s) (p_id s) (p_css s) (p_attrs s) (p_opts s) (s_ids s) (s_listids s) (s_log s).
Definition set_quotes (s : session) (v : list qdef) : session :=
  mkSession (s_mode s) (s_repl s) (s_cb s) v (s_repls s) (s_dblocks s) (s_macros s)
            (p_classes s) (p_id s) (p_css s) (p_attrs s) (p_opts s) (s_ids s) (s_listids s) (s_log s).
Definition set_repls (s : session) (v : list rdef) : session :=
  mkSession (s_mode s) (s_repl s) (s_cb s) (s_quotes s) v (s_dblocks s) (s_macros s)
            (p_classes s) (p_id s) (p_css s) (p_attrs s) (p_opts s) (s_ids s) (s_listids s) (s_log s).
Definition set_dblocks (s : session) (v : list ddef) : session :=
  mkSession (s_mode s) (s_repl s) (s_cb s) (s_quotes s) (s_repls s) v (s_macros s)
            (p_classes s) (p_id s) (p_css s) (p_attrs s) (p_opts s) (s_ids s) (s_listids s) (s_log s).
Definition set_macros (s : session) (v : list (str * str)) : session :=
  mkSession (s_mode s) (s_repl s) (s_cb s) (s_quotes s) (s_repls s) (s_dblocks s) v
            (p_classes s) (p_id s) (p_css s) (p_attrs s) (p_opts s) (s_ids s) (s_listids s) (s_log s).
Definition set_classes (s : session) (v : str) : session :=
  mkSession (s_mode s) (s_repl s) (s_cb s) (s_quotes s) (s_repls s) (s_dblocks s) (s_macros s)
            v (p_id s) (p_css s) (p_attrs s) (p_opts s) (s_ids s) (s_listids s) (s_log s).
Definition set_id (s : session) (v : str) : session :=
  mkSession (s_mode s) (s_repl s) (s_cb s) (s_quotes s) (s_repls s) (s_dblocks s) (s_macros s)
            (p_classes s) v (p_css s) (p_attrs s) (p_opts s) (s_ids s) (s_listids s) (s_log s).
Definition set_css (s : session) (v : str) : session :=
  mkSession (s_mode s) (s_repl s) (s_cb s) (s_quotes s) (s_repls s) (s_dblocks s) (s_macros s)
            (p_classes s) (p_id s) v (p_attrs s) (p_opts s) (s_ids s) (s_listids s) (s_log s).
Definition set_attrs (s : session) (v : str) : session :=
  mkSession (s_mode s) (s_repl s) (s_cb s) (s_quotes s) (s_repls s) (s_dblocks s) (s_macros s)
            (p_classes s) (p_id s) (p_css s) v (p_opts s) (s_ids s) (s_listids s) (s_log s).
Definition set_popts (s : session) (v : expand) : session :=
  mkSession (s_mode s) (s_repl s) (s_cb s) (s_quotes s) (s_repls s) (s_dblocks s) (s_macros s)
            (p_classes s) (p_id s) (p_css s) (p_attrs s) v (s_ids s) (s_listids s) (s_log s).
Definition set_ids (s : session) (v : list str) : session :=
  mkSession (s_mode s) (s_repl s) (s_cb s) (s_quotes s) (s_repls s) (s_dblocks s) (s_macros s)
            (p_classes s) (p_id s) (p_css s) (p_attrs s) (p_opts s) v (s_listids s) (s_log s).
Definition set_listids (s : session) (v : list str) : session :=
  mkSession (s_mode s) (s_repl s) (s_cb s) (s_quotes s) (s_repls s) (s_dblocks s) (s_macros s)
            (p_classes s) (p_id s) (p_css s) (p_attrs s) (p_opts s) (s_ids s) v (s_log s).
Definition set_log (s : session) (v : list (bool * str)) : session :=
  mkSession (s_mode s) (s_repl s) (s_cb s) (s_quotes s) (s_repls s) (s_dblocks s) (s_macros s)
            (p_classes s) (p_id s) (p_css s) (p_attrs s) (p_opts s) (s_ids s) (s_listids s) v.

(* ---- inline layer: reads the session, produces a value and diagnostics ---- *)
Definition I (A : Type) := Res (A * list str).
Definition iret {A} (a : A) : I A := Ok (a, []).
Definition ibind {A B} (m : I A) (f : A -> I B) : I B :=
  match m with
  | Ok (a, l1) =>
      match f a with
      | Ok (b, l2) => Ok (b, l1 ++ l2)
      | Raise e => Raise e
      | Fuel => Fuel
      end
  | Raise e => Raise e
  | Fuel => Fuel
  end.
Definition ierr (msg : str) : I unit := Ok (tt, [msg]).
Definition iraise {A} (e : exn) : I A := Raise e.

(* ---- block layer: state monad over the session ---- *)
Definition M (A : Type) := session -> Res (A * session).
Definition ret {A} (a : A) : M A := fun s => Ok (a, s).
Definition bind {A B} (m : M A) (f : A -> M B) : M B :=
  fun s => match m s with
           | Ok (a, s') => f a s'
           | Raise e => Raise e
           | Fuel => Fuel
           end.
Definition get : M session := fun s => Ok (s, s).
Definition gets {A} (f : session -> A) : M A := fun s => Ok (f s, s).
Definition modify (f : session -> session) : M unit := fun s => Ok (tt, f s).
Definition raise {A} (e : exn) : M A := fun _ => Raise e.
Definition out_of_fuel {A} : M A := fun _ => Fuel.

(* options.errorCallback: always logged; the flag records whether a callback was installed *)
Definition log_msg (msg : str) : M unit :=
  modify (fun s => set_log s ((s_cb s, msg) :: s_log s)).

Fixpoint log_msgs (l : list str) : M unit :=
  match l with
  | [] => ret tt
  | m :: t => bind (log_msg m) (fun _ => log_msgs t)
  end.

(* run an inline computation, which may only read the inline environment of the session *)
Definition lift {A} (f : ienv -> I A) : M A :=
  fun s => match f (ienv_of s) with
           | Ok (a, msgs) => bind (log_msgs msgs) (fun _ => ret a) s
           | Raise e => Raise e
           | Fuel => Fuel
           end.

Declare Scope monad_scope.
Notation "x <- m ;; f" := (bind m (fun x => f)) (at level 61, m at next level, right associativity) : monad_scope.
Notation "m ;;; f" := (bind m (fun _ => f)) (at level 61, right associativity) : monad_scope.
Notation "x <-i m ;; f" := (ibind m (fun x => f)) (at level 61, m at next level, right associativity) : monad_scope.
Notation "m ;;;i f" := (ibind m (fun _ => f)) (at level 61, right associativity) : monad_scope.

(* Block layer: io.Reader, expansion, blockattributes, options, definitions,
   lineblocks, delimitedblocks, lists, document, and the render API. *)
From Rimu Require Import Base Regex RegexParse Str Types Tables Guards State Inline.
Local Open Scope monad_scope.

(* ---- io.Reader: the remaining lines, head = cursor ---- *)
Definition reader := list str.

Definition blank_reserved (text : str) : str :=
  map (fun c => if (c =? 0) || (c =? 1) || (c =? 2) then 32 else c) text.

Definition mk_reader (text : str) : reader :=
  re_split re_io_Reader___init___0 (blank_reserved text).

Fixpoint skipBlankLines (rd : reader) : reader :=
  match rd with
  | l :: t => if is_empty (strip l) then skipBlankLines t else rd
  | [] => []
  end.

(* Reader.readTo: lines before the first match (plus $1 of the match when the pattern
   has groups); the reader is left at the matching line (or at EOF). *)
Fixpoint readTo (rx : cre) (rd : reader) : Res (list str * reader) :=
  match rd with
  | [] => Ok ([], [])
  | l :: t =>
      match re_search rx l with
      | Some m =>
          if Nat.ltb 0 (re_groups rx)
          then match grp m 1 with
               | Some g => Ok ([g], rd)
               | None => Raise ExNoneGroup   (* list of lines would hold None *)
               end
          else Ok ([], rd)
      | None =>
          match readTo rx t with
          | Ok (ls, rd') => Ok (l :: ls, rd')
          | Raise e => Raise e
          | Fuel => Fuel
          end
      end
  end.

Definition mem (x : str) (l : list str) : bool := existsb (str_eqb x) l.

(* ---- expansion.Expand ---- *)
Definition expand_merge (a b : expand) : expand :=
  let pick (x y : option bool) := match y with Some _ => y | None => x end in
  mkExpand (pick (e_macros a) (e_macros b)) (pick (e_container a) (e_container b))
           (pick (e_skip a) (e_skip b)) (pick (e_spans a) (e_spans b))
           (pick (e_specials a) (e_specials b)).

Definition expand_set (e : expand) (name : str) (v : bool) : expand :=
  if str_eqb name $"macros" then mkExpand (Some v) (e_container e) (e_skip e) (e_spans e) (e_specials e)
  else if str_eqb name $"spans" then mkExpand (e_macros e) (e_container e) (e_skip e) (Some v) (e_specials e)
  else if str_eqb name $"specials" then mkExpand (e_macros e) (e_container e) (e_skip e) (e_spans e) (Some v)
  else if str_eqb name $"container" then mkExpand (e_macros e) (Some v) (e_skip e) (e_spans e) (e_specials e)
  else if str_eqb name $"skip" then mkExpand (e_macros e) (e_container e) (Some v) (e_spans e) (e_specials e)
  else e.

(* Expand.parse: returns the updated object and the diagnostics *)
Fixpoint expand_parse_opts (mode : Z) (l : list str) (e : expand) : expand * list str :=
  match l with
  | [] => (e, [])
  | opt :: t =>
      if specials_refused mode && str_eqb opt $"-specials" then
        let '(e', msgs) := expand_parse_opts mode t e in
        (e', $"-specials block option not valid in safeMode" :: msgs)
      else
        match re_match re_expansion_Expand_parse_1 opt with
        | Some _ =>
            let v := match opt with c :: _ => c =? 43 | [] => false end in
            expand_parse_opts mode t (expand_set e (tl opt) v)
        | None =>
            let '(e', msgs) := expand_parse_opts mode t e in
            (e', ($"illegal block option: " ++ opt) :: msgs)
        end
  end.

Definition expand_parse (mode : Z) (e : expand) (o : str) : expand * list str :=
  match o with
  | [] => (e, [])
  | _ => expand_parse_opts mode (re_split re_expansion_Expand_parse_0 (strip o)) e
  end.

(* ---- blockattributes ---- *)
Definition drop_last (s : str) : str := frev (tl (frev s)).
Definition opt_nonempty (o : option str) : bool := match o with Some (_ :: _) => true | _ => false end.
Definition oget (o : option str) : str := match o with Some s => s | None => [] end.

Section WithFuel.
Variable fuel : nat.    (* budget for the inline layer *)

Definition blockattributes_parse (attrs : str) : M bool :=
  m <- gets s_mode ;;
  if parse_skip m then ret true else
  text <- lift (fun s => replaceInline_top fuel s (Some attrs) (mkExpand (Some true) None None None None)) ;;
  match re_match re_blockattributes_parse_0 text with
  | None => ret false
  | Some m1 =>
      match re_match re_blockattributes_parse_1 (dropN (m_end m1) text) with
      | None => ret false
      | Some m2 =>
          (if opt_nonempty (grp m1 1)
           then modify (fun s => set_classes s (strip (p_classes s ++ [32] ++ strip (grp_s m1 1))))
           else ret tt) ;;;
          (if opt_nonempty (grp m2 2)
           then modify (fun s => set_id s (tl (strip (grp_s m2 2))))
           else ret tt) ;;;
          (if opt_nonempty (grp m2 3)
           then modify (fun s =>
                  let css := p_css s in
                  let css := if nonempty css && negb (ends_with [59] css) then css ++ [59] else css in
                  set_css s (strip (css ++ [32] ++ strip (grp_s m2 3))))
           else ret tt) ;;;
          (* `if m2[4] and not options.isSafeModeNz():` -- the mode is read at this point *)
          (if opt_nonempty (grp m2 4)
           then modify (fun s => if attrs_allowed (s_mode s)
                                 then set_attrs s (strip (p_attrs s ++ [32] ++ strip (drop_last (tl (grp_s m2 4)))))
                                 else s)
           else ret tt) ;;;
          (if opt_nonempty (grp m2 5)
           then r <- gets (fun s => expand_parse (s_mode s) (p_opts s) (grp_s m2 5)) ;;
                log_msgs (snd r) ;;; modify (fun s => set_popts s (fst r))
           else ret tt) ;;;
          ret true
      end
  end.

(* `if has_id or id in ids: errorCallback(...) else: ids.insert(0, id)` as one step *)
Definition register_or_report (has_id : bool) (id : str) (s : session) : session :=
  if has_id || mem id (s_ids s)
  then set_log s ((s_cb s, $"duplicate 'id' attribute: " ++ id) :: s_log s)
  else set_ids s (id :: s_ids s).

Definition injectHtmlAttributes (tag : str) (consume : bool) : M str :=
  match tag with
  | [] => ret tag
  | _ =>
      pd <- gets (fun s => (p_classes s, p_id s, p_css s, p_attrs s)) ;;
      let '(classes, pid, css, pattrs) := pd in
      let result := tag in
      (* classes *)
      let '(result, attrs) :=
        if nonempty classes then
          match re_search re_blockattributes_injectHtmlAttributes_0 result with
          | Some m => (replace_first (grp0 m) (grp_s m 1 ++ classes ++ [32] ++ grp_s m 2 ++ [34]) result, [])
          | None => (result, $"class=""" ++ classes ++ [34])
          end
        else (result, []) in
      (* id *)
      attrs <-
        (if nonempty pid then
           let id := lower pid in
           modify (fun s => set_id s id) ;;;
           let has_id := match re_search re_blockattributes_injectHtmlAttributes_1 result with
                         | Some _ => true | None => false end in
           (* `if has_id or id in ids: errorCallback(...) else: ids.insert(0, id)` as one step *)
           modify (register_or_report has_id id) ;;;
           ret (if has_id then attrs else attrs ++ $" id=""" ++ id ++ [34])
         else ret attrs) ;;
      (* css *)
      let '(result, attrs) :=
        if nonempty css then
          match re_search re_blockattributes_injectHtmlAttributes_2 result with
          | Some m =>
              let g2 := strip (grp_s m 2) in
              let g2 := if ends_with [59] g2 then g2 else g2 ++ [59] in
              (replace_first (grp0 m) (grp_s m 1 ++ g2 ++ [32] ++ css ++ [34]) result, attrs)
          | None => (result, attrs ++ $" style=""" ++ css ++ [34])
          end
        else (result, attrs) in
      let attrs := if nonempty pattrs then attrs ++ [32] ++ pattrs else attrs in
      let attrs := strip attrs in
      let result :=
        if nonempty attrs then
          match re_search re_blockattributes_injectHtmlAttributes_3 result with
          | Some m =>
              let k := lenN (grp0 m) in
              takeN k result ++ [32] ++ attrs ++ dropN k result
          | None => result
          end
        else result in
      (if consume
       then modify (fun s => set_attrs (set_css (set_id (set_classes s []) []) []) [])
       else ret tt) ;;;
      ret result
  end.

(* the suffix search of slugify: at most |ids|+1 candidates are needed *)
Fixpoint slug_suffix (budget : list str) (ids : list str) (slug : str) (i : N) : str :=
  let cand := slug ++ [45] ++ str_of_N i in
  match budget with
  | [] => cand
  | _ :: b => if mem cand ids then slug_suffix b ids slug (i + 1) else cand
  end.

Definition slugify (ids : list str) (text : str) : str :=
  let slug := re_sub re_blockattributes_slugify_0 (fun _ => [45]) text in
  let slug := re_sub re_blockattributes_slugify_1 (fun _ => [45]) slug in
  let slug := re_sub re_blockattributes_slugify_2 (fun _ => []) slug in
  let slug := lower slug in
  let slug := match slug with [] => $"x" | _ => slug end in
  if mem slug ids then slug_suffix ids ids slug 2 else slug.

(* ---- document.init and options ---- *)
Definition document_init (s : session) : session :=
  mkSession default_safeMode default_htmlReplacement false
            quotes_default replacements_default dblocks_default predefined_macros
            [] [] [] [] expand_none [] (s_listids s) (s_log s).

Definition setOption_safeMode (value : str) : M unit :=
  let msg := $"illegal safeMode API option value: " ++ value in
  match py_int value with
  | PInt n =>
      if mode_out_of_range n then log_msg msg else modify (fun s => set_mode s n)
  | _ =>
      (* the except branch reports the value and returns *)
      log_msg msg
  end.

(* `value is None or value == False or value == 'false'` *)
Definition reset_is_false (value : pyval) : bool :=
  match value with
  | PyNone => true | PyBool false => true | PyInt 0 => true
  | PyFloat _ true _ => true
  | PyStr v => str_eqb v $"false"
  | _ => false end.
(* `value == True or value == 'true'` *)
Definition reset_is_true (value : pyval) : bool :=
  match value with
  | PyBool true => true | PyInt 1 => true | PyFloat _ _ true => true
  | PyStr v => str_eqb v $"true"
  | _ => false end.

Definition setOption_reset (value : pyval) : M unit :=
  if reset_is_false value then ret tt
  else if reset_is_true value then modify document_init
  else log_msg ($"illegal reset API option value: " ++ py_str value).

(* options.setOption as called from a document (.name = 'value') *)
Definition setOption_doc (name value : str) : M unit :=
  if str_eqb name $"safeMode" then setOption_safeMode value
  else if str_eqb name $"reset" then setOption_reset (PyStr value)
  else if str_eqb name $"htmlReplacement" then modify (fun s => set_repl s value)
  else log_msg ($"illegal API option name: " ++ name).

Definition updateFrom (o : opts) : M unit :=
  modify (fun s => if s_cb s then set_cb s (o_callback o) else s) ;;;
  setOption_reset (o_reset o) ;;;
  (if o_callback o then modify (fun s => set_cb s true) else ret tt) ;;;
  (match o_safeMode o with PyNone => ret tt | v => setOption_safeMode (py_str v) end) ;;;
  (match o_htmlReplacement o with PyNone => ret tt | v => modify (fun s => set_repl s (py_str v)) end).

(* ---- definitions ---- *)
Definition macros_setValue (name value : str) : M unit :=
  m <- gets s_mode ;;
  if setValue_skip m then ret tt else
  let existential := ends_with [63] name in
  let name := if existential then drop_last name else name in
  if str_eqb name $"--" && nonempty value then
    log_msg $"the predefined blank '--' macro cannot be redefined"
  else
    let fix upd (l : list (str * str)) : list (str * str) :=
      match l with
      | [] => [(name, value)]
      | (n, v) :: t => if str_eqb n name then (n, if existential then v else value) :: t
                       else (n, v) :: upd t
      end in
    modify (fun s => set_macros s (upd (s_macros s))).

Definition quotes_setDefinition (q : qdef) : M unit :=
  modify (fun s =>
    match quote_getDefinition (s_quotes s) (q_quote q) with
    | Some _ =>
        set_quotes s (map (fun d => if str_eqb (q_quote d) (q_quote q)
                                    then mkQ (q_quote d) (q_open q) (q_close q) (q_spans q) else d)
                          (s_quotes s))
    | None =>
        if lenN (q_quote q) =? 2 then set_quotes s (q :: s_quotes s)
        else set_quotes s (s_quotes s ++ [q])
    end).

Fixpoint upd_first {A} (p : A -> bool) (f : A -> A) (l : list A) : list A :=
  match l with
  | [] => []
  | x :: t => if p x then f x :: t else x :: upd_first p f t
  end.

Definition replacements_setDefinition (pattern flags replacement : str) : M unit :=
  let ic := existsb (N.eqb 105) flags in
  let ml := existsb (N.eqb 109) flags in
  match parse_regex pattern ic ml with
  | PUnsupported => raise ExUnsupported
  | PError => log_msg ($"illegal replacement regular expression: " ++ pattern)
  | POk rx =>
      let fl := (if ic then 2 else 0) + (if ml then 8 else 0) in
      modify (fun s =>
        if existsb (fun d => str_eqb (r_pat d) pattern) (s_repls s)
        then set_repls s (upd_first (fun d => str_eqb (r_pat d) pattern)
                                    (fun d => mkR (r_pat d) fl rx replacement (r_filter d)) (s_repls s))
        else set_repls s (s_repls s ++ [mkR pattern fl rx replacement RfNone]))
  end.

Definition dblocks_setDefinition (name value : str) : M unit :=
  r <- gets (fun s => (s_dblocks s, s_mode s)) ;;
  let '(dbs, mode) := r in
  if negb (existsb (fun d => str_eqb (d_name d) name) dbs) then
    log_msg ($"illegal delimited block name: " ++ name ++ $": |" ++ name ++ $"|='" ++ value ++ $"'")
  else
    match re_search re_delimitedblocks_setDefinition_0 (strip value) with
    | None => log_msg ($"illegal delimited block definition: |" ++ name ++ $"|='" ++ value ++ $"'")
    | Some m =>
        let upd_tags (d : ddef) :=
          match grp m 1 with
          | Some t1 => mkD (d_name d) t1 (grp_s m 2) (d_openRe d) (d_closeRe d)
                           (d_verify d) (d_delim d) (d_content d) (d_expand d)
          | None => d
          end in
        match grp m 3 with
        | Some o =>
            (* d.expand.parse(match[3]) *)
            let d0 := match find (fun d => str_eqb (d_name d) name) dbs with
                      | Some d => d | None => dummy_ddef end in
            let '(e, msgs) := expand_parse mode (d_expand d0) o in
            modify (fun s => set_dblocks s (upd_first (fun d => str_eqb (d_name d) name)
              (fun d => let d := upd_tags d in
                        mkD (d_name d) (d_openTag d) (d_closeTag d) (d_openRe d) (d_closeRe d)
                            (d_verify d) (d_delim d) (d_content d) e) (s_dblocks s))) ;;;
            log_msgs msgs
        | None =>
            modify (fun s => set_dblocks s (upd_first (fun d => str_eqb (d_name d) name) upd_tags (s_dblocks s)))
        end
    end.

(* ---- lineblocks ---- *)
Definition expand_macros : expand := mkExpand (Some true) None None None None.

Definition macros_expand (text : option str) : M str :=
  lift (fun s => replaceInline_top fuel s text expand_macros).

Definition verifyMacroLine (m : mres) (rd : reader) : M (bool * reader) :=
  let m0 := grp0 m in
  match re_search re_macros_DEF_OPEN m0 with
  | Some _ => ret (false, rd)
  | None =>
      value <- lift (fun s => macros_render_top fuel s m0 true) ;;
      if starts_with m0 value || contains (10 :: m0) value then ret (false, rd)
      else match rd with
           | [] => raise ExAssert
           | cur :: rest => ret (true, cur :: split_char 10 value ++ rest)
           end
  end.

Definition line_filter (d : ldef) (m : mres) : M str :=
  let ng := re_groups (l_re d) in
  match l_filter d with
  | LfNone =>
      match l_repl d with
      | [] => ret []
      | r => lift (fun s => replaceMatch_top fuel s m ng r expand_macros)
      end
  | LfEmpty => ret []
  | LfBlockDef =>
      m0 <- gets s_mode ;;
      if blockDefFilter_skip m0 then ret [] else
      value <- macros_expand (grp m 2) ;;
      dblocks_setDefinition (grp_s m 1) value ;;; ret []
  | LfQuoteDef =>
      m0 <- gets s_mode ;;
      if quoteDefFilter_skip m0 then ret [] else
      o <- macros_expand (grp m 2) ;;
      c <- macros_expand (grp m 4) ;;
      quotes_setDefinition (mkQ (grp_s m 1) o c (str_eqb (grp_s m 3) [124])) ;;; ret []
  | LfReplDef =>
      m0 <- gets s_mode ;;
      if replacementDefFilter_skip m0 then ret [] else
      r <- macros_expand (grp m 3) ;;
      replacements_setDefinition (grp_s m 1) (grp_s m 2) r ;;; ret []
  | LfMacroDef =>
      m0 <- gets s_mode ;;
      if macroDefFilter_skip m0 then ret [] else
      value <- macros_expand (grp m 2) ;;
      macros_setValue (grp_s m 1) value ;;; ret []
  | LfHeader =>
      want_id <- gets (fun s => opt_nonempty (assoc_get $"--header-ids" (s_macros s)) && is_empty (p_id s)) ;;
      (if want_id
       then modify (fun s => set_id s (slugify (s_ids s) (grp_s m 2)))
       else ret tt) ;;;
      result <- lift (fun s => replaceMatch_top fuel s m ng (l_repl d) expand_macros) ;;
      ret (replace_all (grp_s m 1 ++ [62]) (str_of_N (lenN (grp_s m 1)) ++ [62]) result)
  | LfAnchor =>
      m0 <- gets s_mode ;;
      if anchorFilter_skip m0 then ret []
      else lift (fun s => replaceMatch_top fuel s m ng (l_repl d) expand_macros)
  | LfApiOption =>
      m0 <- gets s_mode ;;
      if apiOptionFilter_skip m0 then ret [] else
      value <- macros_expand (grp m 2) ;;
      setOption_doc (grp_s m 1) value ;;; ret []
  end.

Definition has_filter (d : ldef) : bool := match l_filter d with LfNone => false | _ => true end.

Fixpoint lineblocks_loop (defs : list ldef) (rd : reader) (allowed : list str) : M (option str * reader) :=
  match defs with
  | [] => ret (None, rd)
  | d :: ds =>
      if (match allowed with [] => false | _ => true end) && negb (mem (l_name d) allowed)
      then lineblocks_loop ds rd allowed
      else
        match rd with
        | [] => raise ExAssert
        | cur :: rest =>
            match re_search (l_re d) cur with
            | None => lineblocks_loop ds rd allowed
            | Some m =>
                match grp0 m with
                | [] => raise ExIndex
                | c0 :: _ =>
                    if c0 =? 92 then lineblocks_loop ds (tl cur :: rest) allowed
                    else
                      vr <- (match l_verify d with
                             | LvNone => ret (true, rd)
                             | LvMacroLine => verifyMacroLine m rd
                             | LvAttributes => b <- blockattributes_parse (grp0 m) ;; ret (b, rd)
                             end) ;;
                      let '(ok, rd1) := vr in
                      if negb ok then lineblocks_loop ds rd1 allowed
                      else
                        text <- line_filter d m ;;
                        match text with
                        | [] => ret (Some [], tl rd1)
                        | _ =>
                            text' <- injectHtmlAttributes text true ;;
                            let rd2 := tl rd1 in
                            ret (Some (text' ++ match rd2 with [] => [] | _ => [10] end), rd2)
                        end
                end
            end
        end
  end.

Definition lineblocks_render (rd : reader) (allowed : list str) : M (option str * reader) :=
  lineblocks_loop lineblocks_defs rd allowed.

(* ---- delimitedblocks ---- *)
Definition lit_close (delim : str) : cre := re_delimitedblocks_classInjectionFilter_0_of (rstr delim).

Definition set_closeRe (i : nat) (rx : cre) (s : session) : session :=
  let fix go (k : nat) (l : list ddef) : list ddef :=
    match l with
    | [] => []
    | d :: t => match k with
                | O => mkD (d_name d) (d_openTag d) (d_closeTag d) (d_openRe d) rx
                           (d_verify d) (d_delim d) (d_content d) (d_expand d) :: t
                | S k' => d :: go k' t
                end
    end in
  set_dblocks s (go i (s_dblocks s)).

Definition indentedContentFilter (text : str) : Res str :=
  match re_search re_delimitedblocks_indentedContentFilter_0 text with
  | None => Raise ExFilter
  | Some m0 =>
      let first_indent := m_start m0 in
      Ok (join [10] (map (fun line =>
            let indent := match re_search re_delimitedblocks_indentedContentFilter_1 line with
                          | Some m => m_start m | None => 0 end in
            let indent := if first_indent <? indent then first_indent else indent in
            dropN indent line) (split_char 10 text)))
  end.

Definition quoteParagraphContentFilter (text : str) : str :=
  join [10] (map (fun line =>
    let line := re_sub re_delimitedblocks_quoteParagraphContentFilter_0 (fun _ => []) line in
    re_sub re_delimitedblocks_quoteParagraphContentFilter_1 (fun _ => [62]) line)
    (split_char 10 text)).

Definition macroDefContentFilter (text : str) (m : mres) (e : expand) : M str :=
  match re_search re_delimitedblocks_macroDefContentFilter_0 (grp0 m) with
  | None => raise ExFilter
  | Some mm =>
      let name := grp_s mm 1 in
      let text := re_sub re_delimitedblocks_macroDefContentFilter_1 (fun _ => [39; 10]) text in
      let text := re_sub re_delimitedblocks_macroDefContentFilter_2 (fun m => grp_s m 1 ++ [10]) text in
      text <- lift (fun s => replaceInline_top fuel s (Some text) e) ;;
      macros_setValue name text ;;; ret []
  end.

Definition db_verify (d : ddef) (m : mres) : bool :=
  match d_verify d with
  | DvNone => true
  | DvHtml =>
      if opt_nonempty (grp m 2)
      then match re_search re_delimitedblocks_MATCH_INLINE_TAG (grp_s m 2) with None => true | Some _ => false end
      else true
  | DvCode =>
      negb ((hd 0 (grp_s m 1) =? 45) && nonempty (strip (grp_s m 2)))
  end.

Section WithDoc.
Variable doc : str -> M str.    (* document.render on the text of a container block *)

Definition dblock_body (i : nat) (d : ddef) (m : mres) (rest : reader) : M (str * reader) :=
  (* opening delimiter *)
  delimiterText <-
    (match d_delim d with
     | DfNone => ret []
     | DfOpening => match grp m 1 with Some g => ret g | None => ret [] end
     | DfClassInj =>
         let p1 := strip (grp_s m 2) in
         (if nonempty p1 then modify (fun s => set_classes s p1) else ret tt) ;;;
         modify (set_closeRe i (lit_close (grp_s m 1))) ;;;
         ret []
     end) ;;
  closeRe <- gets (fun s => d_closeRe (nth i (s_dblocks s) d)) ;;
  match readTo closeRe rest with
  | Raise e => raise e
  | Fuel => out_of_fuel
  | Ok (content, rd1) =>
      (if (match rd1 with [] => true | _ => false end) && mem (d_name d) unterminated_names
       then log_msg ($"unterminated " ++ d_name d ++ $" block: " ++ grp0 m)
       else ret tt) ;;;
      let rd2 := tl rd1 in
      let lines := (match delimiterText with [] => [] | _ => [delimiterText] end) ++ content in
      expand <- gets (fun s => expand_merge (d_expand (nth i (s_dblocks s) d)) (p_opts s)) ;;
      out <-
        (if truthy (e_skip expand) then ret []
         else
           let text := join [10] lines in
           text <- (match d_content d with
                    | CfNone => ret text
                    | CfMacroDef => macroDefContentFilter text m expand
                    | CfHtml => gets (fun s => htmlSafeModeFilter (ienv_of s) text)
                    | CfIndented => match indentedContentFilter text with
                                    | Ok t => ret t | Raise e => raise e | Fuel => out_of_fuel end
                    | CfQuotePara => ret (quoteParagraphContentFilter text)
                    end) ;;
           d' <- gets (fun s => nth i (s_dblocks s) d) ;;
           let is_html := str_eqb (d_name d) $"html" in
           text <- (if is_html then injectHtmlAttributes text true else ret text) ;;
           opentag <- (if is_html then ret (d_openTag d') else injectHtmlAttributes (d_openTag d') true) ;;
           text <- (if truthy (e_container expand)
                    then modify (fun s => let o := p_opts s in
                                          set_popts s (mkExpand (e_macros o) None (e_skip o) (e_spans o) (e_specials o))) ;;;
                         doc text
                    else lift (fun s => replaceInline_top fuel s (Some text) expand)) ;;
           (* d.closeTag is read after the nested render (the definition may have been changed by it) *)
           closetag <- gets (fun s => d_closeTag (nth i (s_dblocks s) d')) ;;
           let '(opentag, closetag) :=
             if str_eqb (d_name d) $"division" && str_eqb opentag $"<div>" then ([], []) else (opentag, closetag) in
           let body := opentag ++ text ++ closetag in
           ret (body ++ (if (match rd2 with [] => false | _ => true end) && nonempty body then [10] else []))) ;;
      modify (fun s => set_popts s expand_none) ;;;
      ret (out, rd2)
  end.

Fixpoint dblock_loop (k : nat) (i : nat) (rd : reader) (allowed : list str) : M (option str * reader) :=
  match k with
  | O => ret (None, rd)
  | S k' =>
      od <- gets (fun s => nth_error (s_dblocks s) i) ;;
      match od with
      | None => ret (None, rd)
      | Some d =>
          if (match allowed with [] => false | _ => true end) && negb (mem (d_name d) allowed)
          then dblock_loop k' (S i) rd allowed
          else
            match rd with
            | [] => raise ExAssert
            | cur :: rest =>
                match re_search (d_openRe d) cur with
                | None => dblock_loop k' (S i) rd allowed
                | Some m =>
                    match grp0 m, str_eqb (d_name d) $"paragraph" with
                    | [], false => raise ExIndex
                    | c0 :: _, false =>
                        if c0 =? 92 then dblock_loop k' (S i) (tl cur :: rest) allowed
                        else if negb (db_verify d m) then dblock_loop k' (S i) rd allowed
                        else r <- dblock_body i d m rest ;; ret (Some (fst r), snd r)
                    | [], true =>
                        (* match[0][0] on an empty match raises IndexError *)
                        raise ExIndex
                    | _ :: _, true =>
                        if negb (db_verify d m) then dblock_loop k' (S i) rd allowed
                        else r <- dblock_body i d m rest ;; ret (Some (fst r), snd r)
                    end
                end
            end
      end
  end.

Definition dblocks_render (rd : reader) (allowed : list str) : M (option str * reader) :=
  k <- gets (fun s => length (s_dblocks s)) ;;
  dblock_loop k 0 rd allowed.

(* ---- lists ---- *)
Record item := mkItem { it_m : mres; it_def : listdef; it_id : str }.

Fixpoint matchItem_loop (defs : list listdef) (rd : reader) : Res (option item * reader) :=
  match defs with
  | [] => Ok (None, rd)
  | d :: ds =>
      match rd with
      | [] => Ok (None, rd)
      | cur :: rest =>
          match re_search (li_re d) cur with
          | None => matchItem_loop ds rd
          | Some m =>
              match grp0 m with
              | [] => Raise ExIndex
              | c0 :: _ =>
                  if c0 =? 92 then Ok (None, tl cur :: rest)
                  else
                    let g := re_groups (li_re d) in
                    match grp m (g - 1) with
                    | Some id => Ok (Some (mkItem m d id), rd)
                    | None => Ok (Some (mkItem m d []), rd)
                    end
              end
          end
      end
  end.

Definition matchItem (rd : reader) : M (option item * reader) :=
  match matchItem_loop lists_defs rd with
  | Ok r => ret r
  | Raise e => raise e
  | Fuel => out_of_fuel
  end.

(* lists.consumeBlockAttributes: blank-line count (-1 = EOF), output, reader *)
Fixpoint consumeBlockAttributes (n : nat) (rd : reader) (blanks : Z) (acc : str) : M (Z * str * reader) :=
  match n with
  | O => out_of_fuel
  | S n' =>
      match rd with
      | [] => ret ((-1)%Z, acc, rd)
      | _ =>
          r <- lineblocks_render rd lists_allowed_attrs ;;
          match r with
          | (Some out, rd') => consumeBlockAttributes n' rd' blanks (acc ++ out)
          | (None, rd') =>
              match rd' with
              | [] => raise ExAssert
              | cur :: rest =>
                  if nonempty cur then ret (blanks, acc, rd')
                  else consumeBlockAttributes n' rest (blanks + 1)%Z acc
              end
          end
      end
  end.

Definition pop_listid : M unit :=
  ids <- gets s_listids ;;
  match frev ids with
  | [] => raise ExPopEmpty
  | _ :: r => modify (fun s => set_listids s (frev r))
  end.

Definition item_text (it : item) : option str := grp (it_m it) (re_groups (li_re (it_def it))).

Fixpoint renderList (n : nat) (it : item) (rd : reader) {struct n} : M (str * option item * reader) :=
  match n with
  | O => out_of_fuel
  | S n' =>
      modify (fun s => set_listids s (s_listids s ++ [it_id it])) ;;;
      open <- injectHtmlAttributes (li_listOpen (it_def it)) true ;;
      r <- renderItems n' it rd ;;
      let '(body, nextItem, rd') := r in
      pop_listid ;;;
      ret (open ++ body ++ li_listClose (it_def it), nextItem, rd')
  end
with renderItems (n : nat) (it : item) (rd : reader) {struct n} : M (str * option item * reader) :=
  (* the while-loop of renderList *)
  match n with
  | O => out_of_fuel
  | S n' =>
      r <- renderListItem n' it rd ;;
      let '(out, nextItem, rd') := r in
      match nextItem with
      | Some nx =>
          if str_eqb (it_id nx) (it_id it)
          then r2 <- renderItems n' nx rd' ;;
               let '(out2, nn, rd2) := r2 in ret (out ++ out2, nn, rd2)
          else ret (out, nextItem, rd')
      | None => ret (out, None, rd')
      end
  end
with renderListItem (n : nat) (it : item) (rd : reader) {struct n} : M (str * option item * reader) :=
  match n with
  | O => out_of_fuel
  | S n' =>
      let d := it_def it in
      head <-
        (if nonempty (li_termOpen d) then
           t <- injectHtmlAttributes (li_termOpen d) false ;;
           modify (fun s => set_id s []) ;;;
           text <- lift (fun s => replaceInline_top fuel s (grp (it_m it) 1)
                                    (mkExpand (Some true) None None (Some true) None)) ;;
           ret (t ++ text ++ li_termClose d)
         else ret []) ;;
      iopen <- injectHtmlAttributes (li_itemOpen d) true ;;
      match item_text it with
      | None => raise ExNoneGroup
      | Some first =>
          r <- itemLoop n' (tl rd) (first ++ [10]) [] false ;;
          let '(nextItem, rd', itemLines, attached) := r in
          text <- lift (fun s => replaceInline_top fuel s (Some (strip itemLines))
                                   (mkExpand (Some true) None None (Some true) None)) ;;
          ret (head ++ iopen ++ text ++ attached ++ li_itemClose d, nextItem, rd')
      end
  end
with itemLoop (n : nat) (rd : reader) (itemLines attached : str) (attachedDone : bool) {struct n}
  : M (option item * reader * str * str) :=
  match n with
  | O => out_of_fuel
  | S n' =>
      r <- consumeBlockAttributes n' rd 0%Z [] ;;
      let '(blankLines, out, rd1) := r in
      let attached := attached ++ out in
      if (2 <=? blankLines)%Z || (blankLines =? -1)%Z then ret (None, rd1, itemLines, attached)
      else
        r <- matchItem rd1 ;;
        let '(nextItem, rd2) := r in
        match nextItem with
        | Some nx =>
            is_open <- gets (fun s => mem (it_id nx) (s_listids s)) ;;
            if is_open then ret (Some nx, rd2, itemLines, attached)
            else
              r <- renderList n' nx rd2 ;;
              let '(out, nn, rd3) := r in
              ret (nn, rd3, itemLines, attached ++ out)
        | None =>
            if attachedDone then ret (None, rd2, itemLines, attached)
            else if (blankLines =? 0)%Z then
              saved <- gets s_listids ;;
              modify (fun s => set_listids s []) ;;;
              r <- dblocks_render rd2 lists_allowed0 ;;
              modify (fun s => set_listids s saved) ;;;
              match r with
              | (Some out, rd3) => itemLoop n' rd3 itemLines (attached ++ out) true
              | (None, rd3) =>
                  match rd3 with
                  | [] => raise ExAssert
                  | cur :: rest => itemLoop n' rest (itemLines ++ cur ++ [10]) attached attachedDone
                  end
              end
            else if (blankLines =? 1)%Z then
              saved <- gets s_listids ;;
              modify (fun s => set_listids s []) ;;;
              r <- dblocks_render rd2 lists_allowed1 ;;
              modify (fun s => set_listids s saved) ;;;
              match r with
              | (Some out, rd3) => itemLoop n' rd3 itemLines (attached ++ out) true
              | (None, rd3) => ret (None, rd3, itemLines, attached)
              end
            else
              (* blankLines < -1 cannot happen; the Python loop would spin *)
              out_of_fuel
        end
  end.

Definition lists_render (n : nat) (rd : reader) : M (option str * reader) :=
  r <- matchItem rd ;;
  match r with
  | (None, rd') => ret (None, rd')
  | (Some it, rd') =>
      modify (fun s => set_listids s []) ;;;
      r <- renderList n it rd' ;;
      let '(out, _, rd2) := r in
      ids <- gets s_listids ;;
      (match ids with [] => ret tt | _ => log_msg $"panic: list stack failure" end) ;;;
      ret (Some out, rd2)
  end.

(* the block loop of document.render *)
Fixpoint doc_loop (n : nat) (rd : reader) : M str :=
  match n with
  | O => out_of_fuel
  | S n' =>
      match skipBlankLines rd with
      | [] => ret []
      | rd =>
          r <- lineblocks_render rd [] ;;
          match r with
          | (Some out, rd') => rest <- doc_loop n' rd' ;; ret (out ++ rest)
          | (None, rd') =>
              r <- lists_render n' rd' ;;
              match r with
              | (Some out, rd') => rest <- doc_loop n' rd' ;; ret (out ++ rest)
              | (None, rd') =>
                  r <- dblocks_render rd' [] ;;
                  match r with
                  | (Some out, rd') => rest <- doc_loop n' rd' ;; ret (out ++ rest)
                  | (None, rd') => out_of_fuel   (* panic + endless loop; unreachable *)
                  end
              end
          end
      end
  end.

End WithDoc.
End WithFuel.

(* document.render *)
Fixpoint doc_render (n : nat) (text : str) : M str :=
  match n with
  | O => out_of_fuel
  | S n' => doc_loop n' (doc_render n') n' (mk_reader text)
  end.

(* rimu.render *)
Definition api_render (n : nat) (source : str) (o : opts) : M str :=
  m <- gets s_mode ;;
  (if (m =? -1)%Z then modify document_init else ret tt) ;;;
  updateFrom o ;;;
  doc_render n source.

(* a session history: outputs of each call (or the failure), final state *)
Inductive outcome := OOk (html : str) | ORaise (e : exn) | OFuel.

Fixpoint run (n : nat) (s : session) (h : list (str * opts)) : list outcome * session :=
  match h with
  | [] => ([], s)
  | (src, o) :: t =>
      match api_render n src o s with
      | Ok (html, s') => let '(l, s'') := run n s' t in (OOk html :: l, s'')
      | Raise e => ([ORaise e], s)
      | Fuel => ([OFuel], s)
      end
  end.

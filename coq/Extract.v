From Coq Require Import Extraction ExtrOcamlBasic.
From Rimu Require Import Base Regex RegexParse Str Types Tables Guards State Inline Block Rimuc.
Extraction Language OCaml.
Set Extraction Output Directory ".".
Extraction "rimu_model.ml" S0 run api_render regex_table re_search_pos quotesRe unescapeRe
  quotes_default document_init py_int slugify mk_reader spans_render macros_render_top parse_regex rimuc_main.

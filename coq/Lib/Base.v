(* Base definitions: characters are code points (N), strings are lists of code points. *)
From Coq Require Export Ascii String.
From Coq Require Export List NArith ZArith Bool.
Export ListNotations.
Open Scope N_scope.

Definition char := N.
Definition str := list char.

(* Coq string literal -> str (ASCII only; used for constants of the model). *)
Fixpoint s2l (s : string) : str :=
  match s with
  | EmptyString => []
  | String a t => N_of_ascii a :: s2l t
  end.
Notation "$ s" := (s2l s%string) (at level 1, format "$ s").

Fixpoint in_ranges (c : N) (rs : list (N * N)) : bool :=
  match rs with
  | [] => false
  | (lo, hi) :: t => if c <? lo then false else if c <=? hi then true else in_ranges c t
  end.

Fixpoint str_eqb (a b : str) : bool :=
  match a, b with
  | [], [] => true
  | x :: a', y :: b' => (x =? y) && str_eqb a' b'
  | _, _ => false
  end.

Lemma str_eqb_eq a b : str_eqb a b = true <-> a = b.
Proof.
  revert b; induction a as [|x a IH]; intros [|y b]; simpl; split; intro H; try discriminate; auto.
  - apply andb_true_iff in H as [H1 H2]. apply N.eqb_eq in H1. apply IH in H2. subst; auto.
  - inversion H; subst. rewrite N.eqb_refl. simpl. apply IH. auto.
Qed.

Lemma str_eqb_refl a : str_eqb a a = true.
Proof. apply str_eqb_eq; auto. Qed.

Lemma str_eqb_neq a b : str_eqb a b = false <-> a <> b.
Proof.
  split; intro H.
  - intro E. apply str_eqb_eq in E. congruence.
  - destruct (str_eqb a b) eqn:E; auto. apply str_eqb_eq in E. contradiction.
Qed.

Fixpoint units {A} (l : list A) : list unit :=
  match l with [] => [] | _ :: t => tt :: units t end.

(* linear-time reverse (List.rev is quadratic when extracted) *)
Definition frev {A} (l : list A) : list A := rev_append l [].
Lemma frev_rev {A} (l : list A) : frev l = rev l.
Proof. unfold frev. rewrite rev_append_rev. apply app_nil_r. Qed.

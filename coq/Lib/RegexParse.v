(* Parser for the subset of Python pattern syntax accepted for author-supplied
   patterns (replacement definitions, inclusion/exclusion macros).  Mirrors
   re._parser: same errors ("nothing to repeat", "multiple repeat", unbalanced
   parentheses, bad escapes, bad ranges...) reported as PError; syntax outside
   the modelled subset (named groups, inline flags, look-behind, hex/octal
   escapes, \B, \Z, possessive quantifiers...) is PUnsupported. *)
From Rimu Require Import Base Regex Unicode.

Inductive parse_result := POk (c : cre) | PError | PUnsupported.

Inductive pres (A : Type) := ROk (a : A) | RErr | RUns.
Arguments ROk {A} a.
Arguments RErr {A}.
Arguments RUns {A}.

Record pstate := { ps_next : nat; ps_closed : list nat }.

Fixpoint rseq' (l : list regex) : regex :=
  match l with [] => REps | [x] => x | x :: t => RSeq x (rseq' t) end.
Fixpoint ralt' (l : list regex) : regex :=
  match l with [] => RSet false [] | [x] => x | x :: t => RAlt x (ralt' t) end.

(* case-insensitive closure *)
Definition ci_equiv (c : N) : list N :=
  match find (fun e => fst e =? c) ci_table with Some (_, l) => l | None => [] end.

Definition ci_lit (ic : bool) (c : N) : regex :=
  if ic then RSet false (IRange c c :: map (fun x => IRange x x) (ci_equiv c))
  else RSet false [IRange c c].

Definition ci_close (items : list citem) : list citem :=
  items ++ flat_map (fun e => if existsb (in_item (fst e)) items
                              then map (fun x => IRange x x) (snd e) else []) ci_table.

Definition is_digit (c : N) : bool := (48 <=? c) && (c <=? 57).
Definition is_ascii_alnum (c : N) : bool :=
  is_digit c || ((65 <=? c) && (c <=? 90)) || ((97 <=? c) && (c <=? 122)).

Fixpoint read_digits (s : str) (acc : N) (any : bool) : (N * bool * str) :=
  match s with
  | c :: t => if is_digit c then read_digits t (acc * 10 + (c - 48)) true else (acc, any, s)
  | [] => (acc, any, s)
  end.

(* after '{': Some (min, max, rest) when a well-formed repeat spec follows *)
Definition parse_braces (s : str) : option (N * option N * str) :=
  match s with
  | 125 :: _ => None                (* "{}" is a literal *)
  | _ =>
      let '(lo, anylo, s1) := read_digits s 0 false in
      match s1 with
      | 44 :: s2 =>
          let '(hi, anyhi, s3) := read_digits s2 0 false in
          match s3 with
          | 125 :: s4 => Some (if anylo then lo else 0, if anyhi then Some hi else None, s4)
          | _ => None
          end
      | 125 :: s2 => if anylo then Some (lo, Some lo, s2) else None
      | _ => None
      end
  end.

Inductive qres := QNone | QRep (mn : N) (mx : option N) (greedy : bool) (rest : str) | QErr | QUns.

Definition parse_quant (s : str) : qres :=
  let finish mn mx rest :=
    match rest with
    | 63 :: r => QRep mn mx false r
    | 43 :: _ => QUns                   (* possessive *)
    | _ => QRep mn mx true rest
    end in
  match s with
  | 42 :: r => finish 0 None r
  | 43 :: r => finish 1 None r
  | 63 :: r => finish 0 (Some 1) r
  | 123 :: r =>
      match parse_braces r with
      | Some (mn, mx, r') =>
          (* OverflowError: the repetition number is too large *)
          if 4294967295 <=? mn then QErr else
          match mx with
          | Some x => if (x <? mn) || (4294967295 <=? x) then QErr else finish mn mx r'
          | None => finish mn mx r'
          end
      | None => QNone
      end
  | _ => QNone
  end.

Definition cat_escape (c : N) : option citem :=
  if c =? 100 then Some (ICat CatDigit false) else if c =? 68 then Some (ICat CatDigit true)
  else if c =? 115 then Some (ICat CatSpace false) else if c =? 83 then Some (ICat CatSpace true)
  else if c =? 119 then Some (ICat CatWord false) else if c =? 87 then Some (ICat CatWord true)
  else None.

Definition simple_escape (c : N) : option N :=
  if c =? 110 then Some 10 else if c =? 116 then Some 9 else if c =? 114 then Some 13
  else if c =? 102 then Some 12 else if c =? 118 then Some 11 else if c =? 97 then Some 7
  else if c =? 92 then Some 92 else None.

(* one class member: category, or a code point *)
Inductive cmember := CMcat (i : citem) | CMchr (c : N).

Definition class_member (s : str) : pres (cmember * str) :=
  match s with
  | [] => RErr
  | 92 :: c :: t =>
      match cat_escape c with
      | Some i => ROk (CMcat i, t)
      | None =>
          if c =? 98 then ROk (CMchr 8, t) else
          match simple_escape c with
          | Some x => ROk (CMchr x, t)
          | None => if is_digit c || (c =? 120) || (c =? 117) || (c =? 85) || (c =? 78) then RUns
                    else if is_ascii_alnum c then RErr else ROk (CMchr c, t)
          end
      end
  | 92 :: [] => RErr
  | c :: t => ROk (CMchr c, t)
  end.

Fixpoint parse_class (fuel : nat) (s : str) (first : bool) (acc : list citem) : pres (list citem * str) :=
  match fuel with
  | O => RErr
  | S f =>
      match s with
      | [] => RErr
      | 93 :: t => if first then
                     (* a leading ']' is a literal *)
                     match t with
                     | 45 :: 93 :: t' => ROk (acc ++ [IRange 93 93; IRange 45 45], t')
                     | 45 :: _ => RUns
                     | _ => parse_class f t false (acc ++ [IRange 93 93])
                     end
                   else ROk (acc, t)
      | _ =>
          match class_member s with
          | RErr => RErr
          | RUns => RUns
          | ROk (m1, s1) =>
              match s1 with
              | 45 :: 93 :: t' =>
                  ROk (acc ++ [match m1 with CMcat i => i | CMchr c => IRange c c end; IRange 45 45], t')
              | 45 :: s2 =>
                  match s2 with
                  | [] => RErr
                  | _ =>
                      match class_member s2 with
                      | RErr => RErr
                      | RUns => RUns
                      | ROk (m2, s3) =>
                          match m1, m2 with
                          | CMchr lo, CMchr hi =>
                              if hi <? lo then RErr else parse_class f s3 false (acc ++ [IRange lo hi])
                          | _, _ => RErr
                          end
                      end
                  end
              | _ => parse_class f s1 false (acc ++ [match m1 with CMcat i => i | CMchr c => IRange c c end])
              end
          end
      end
  end.

Section Parser.
Variable ic ml : bool.

Definition is_at (r : regex) : bool :=
  match r with RBol _ | REol _ | RWordB _ => true | _ => false end.
Definition is_rep (r : regex) : bool :=
  match r with RRep _ _ _ _ => true | _ => false end.

(* atom: regex, whether it came from a non-capturing group (then a repeat inside is fine) *)
Fixpoint parse_alt (fuel : nat) (s : str) (st : pstate) {struct fuel} : pres (regex * str * pstate) :=
  match fuel with
  | O => RErr
  | S f =>
      let fix branches (k : nat) (s : str) (st : pstate) (acc : list regex) {struct k}
        : pres (regex * str * pstate) :=
        match k with
        | O => RErr
        | S k' =>
            match parse_seq f s st [] with
            | RErr => RErr
            | RUns => RUns
            | ROk (r, s', st') =>
                match s' with
                | 124 :: s'' => branches k' s'' st' (acc ++ [r])
                | _ => ROk (ralt' (acc ++ [r]), s', st')
                end
            end
        end in
      branches (S (length s)) s st []
  end
with parse_seq (fuel : nat) (s : str) (st : pstate) (acc : list regex) {struct fuel}
  : pres (regex * str * pstate) :=
  match fuel with
  | O => RErr
  | S f =>
      match s with
      | [] => ROk (rseq' acc, s, st)
      | 124 :: _ => ROk (rseq' acc, s, st)
      | 41 :: _ => ROk (rseq' acc, s, st)
      | _ =>
          match parse_atom f s st with
          | RErr => RErr
          | RUns => RUns
          | ROk (a, unwrapped, s1, st1) =>
              match parse_quant s1 with
              | QErr => RErr
              | QUns => RUns
              | QNone => parse_seq f s1 st1 (acc ++ [a])
              | QRep mn mx g s2 =>
                  if is_at a then RErr
                  else if is_rep a && negb unwrapped then RErr
                  else parse_seq f s2 st1 (acc ++ [RRep g mn mx a])
              end
          end
      end
  end
with parse_atom (fuel : nat) (s : str) (st : pstate) {struct fuel}
  : pres (regex * bool * str * pstate) :=
  match fuel with
  | O => RErr
  | S f =>
      match s with
      | [] => RErr
      | c :: t =>
          if c =? 46 then ROk (RAny false, false, t, st)
          else if c =? 94 then ROk (RBol ml, false, t, st)
          else if c =? 36 then ROk (REol ml, false, t, st)
          else if (c =? 42) || (c =? 43) || (c =? 63) then RErr     (* nothing to repeat *)
          else if c =? 123 then
            match parse_braces t with
            | Some _ => RErr                                         (* nothing to repeat *)
            | None => ROk (ci_lit ic 123, false, t, st)
            end
          else if c =? 91 then
            let '(neg, t') := match t with 94 :: t' => (true, t') | _ => (false, t) end in
            match parse_class (S (length t')) t' true [] with
            | RErr => RErr
            | RUns => RUns
            | ROk (items, rest) => ROk (RSet neg (if ic then ci_close items else items), false, rest, st)
            end
          else if c =? 92 then
            match t with
            | [] => RErr
            | e :: t' =>
                match cat_escape e with
                | Some i => ROk (RSet false [i], false, t', st)
                | None =>
                    if e =? 98 then ROk (RWordB false, false, t', st)
                    else if e =? 66 then ROk (RWordB true, false, t', st)
                    else if e =? 65 then ROk (RBol false, false, t', st)
                    else if e =? 90 then RUns
                    else if is_digit e then
                      if e =? 48 then RUns else
                      match t' with
                      | d :: _ => if is_digit d then RUns else
                                  let g := N.to_nat (e - 48) in
                                  if ic then RUns
                                  else if existsb (Nat.eqb g) (ps_closed st) then ROk (RBref g, false, t', st)
                                  else RErr
                      | [] => let g := N.to_nat (e - 48) in
                              if ic then RUns
                              else if existsb (Nat.eqb g) (ps_closed st) then ROk (RBref g, false, t', st)
                              else RErr
                      end
                    else match simple_escape e with
                         | Some x => ROk (ci_lit ic x, false, t', st)
                         | None =>
                             if (e =? 120) || (e =? 117) || (e =? 85) || (e =? 78) then RUns
                             else if is_ascii_alnum e then RErr
                             else ROk (ci_lit ic e, false, t', st)
                         end
                end
            end
          else if c =? 40 then
            match t with
            | 63 :: 58 :: t' =>
                match parse_alt f t' st with
                | ROk (r, 41 :: rest, st') => ROk (r, true, rest, st')
                | ROk _ => RErr
                | RErr => RErr
                | RUns => RUns
                end
            | 63 :: 61 :: t' =>
                match parse_alt f t' st with
                | ROk (r, 41 :: rest, st') => ROk (RLook false r, false, rest, st')
                | ROk _ => RErr
                | RErr => RErr
                | RUns => RUns
                end
            | 63 :: 33 :: t' =>
                match parse_alt f t' st with
                | ROk (r, 41 :: rest, st') => ROk (RLook true r, false, rest, st')
                | ROk _ => RErr
                | RErr => RErr
                | RUns => RUns
                end
            | 63 :: _ => RUns
            | _ =>
                let g := ps_next st in
                match parse_alt f t {| ps_next := S g; ps_closed := ps_closed st |} with
                | ROk (r, 41 :: rest, st') =>
                    ROk (RGrp g r, false, rest, {| ps_next := ps_next st'; ps_closed := g :: ps_closed st' |})
                | ROk _ => RErr
                | RErr => RErr
                | RUns => RUns
                end
            end
          else ROk (ci_lit ic c, false, t, st)
      end
  end.
End Parser.

Definition parse_regex (pat : str) (ignorecase multiline : bool) : parse_result :=
  match parse_alt ignorecase multiline (3 * length pat + 3) pat {| ps_next := 1; ps_closed := [] |} with
  | ROk (r, [], st) => POk {| re_ast := r; re_groups := ps_next st - 1 |}
  | ROk _ => PError          (* unbalanced parenthesis *)
  | RErr => PError
  | RUns => PUnsupported
  end.

(* Parser for the subset of Python pattern syntax accepted for author-supplied
   patterns (replacement definitions, inclusion/exclusion macros). *)
From Rimu Require Import Base Regex.

Inductive parse_result := POk (c : cre) | PError | PUnsupported.

Definition parse_regex (pat : str) (ignorecase multiline : bool) : parse_result := PUnsupported.

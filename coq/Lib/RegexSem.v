(* L1: a declarative big-step semantics of regular-expression matching and the soundness
   of the backtracking matcher [exec] with respect to it.  From it: what a match consumes
   is a factor of the subject at the reported span, and group texts are the consumed texts
   of their sub-matches (hence factors of the subject too). *)
From Rimu Require Import Base Unicode Regex Str.
From Coq Require Import Lia.

Record mst := mkSt { st_i : N; st_p : option char; st_rest : str; st_c : caps }.

(* Soundness only: the relation over-approximates the matcher (no priorities, negative
   look-ahead and anchors unconstrained); it is used to decompose a reported match. *)
Inductive Matches : regex -> mst -> mst -> Prop :=
| MEps s : Matches REps s s
| MSet neg items x t i p c :
    set_match neg items x = true ->
    Matches (RSet neg items) (mkSt i p (x :: t) c) (mkSt (i + 1) (Some x) t c)
| MAny dotall x t i p c :
    dotall || negb (x =? 10) = true ->
    Matches (RAny dotall) (mkSt i p (x :: t) c) (mkSt (i + 1) (Some x) t c)
| MSeq a b s1 s2 s3 : Matches a s1 s2 -> Matches b s2 s3 -> Matches (RSeq a b) s1 s3
| MAltL a b s s' : Matches a s s' -> Matches (RAlt a b) s s'
| MAltR a b s s' : Matches b s s' -> Matches (RAlt a b) s s'
| MRep g mn mx b s s' k : Iter b s k s' -> (N.to_nat mn <= k)%nat -> Matches (RRep g mn mx b) s s'
| MGrp n b s s' :
    Matches b s s' ->
    Matches (RGrp n b) s (mkSt (st_i s') (st_p s') (st_rest s')
                               ((n, {| c_s := st_i s; c_e := st_i s'; c_txt := st_rest s |}) :: st_c s'))
| MLookPos b s s' : Matches b s s' -> Matches (RLook false b) s (mkSt (st_i s) (st_p s) (st_rest s) (st_c s'))
| MLookNeg b s : Matches (RLook true b) s s
| MBref n s g rest' p' :
    cap_get n (st_c s) = Some g ->
    strip_prefix (cap_text g) (st_rest s) (st_p s) = Some (rest', p') ->
    Matches (RBref n) s (mkSt (st_i s + (c_e g - c_s g)) p' rest' (st_c s))
| MBol ml s : Matches (RBol ml) s s
| MEol ml s : Matches (REol ml) s s
| MWordB neg s : Matches (RWordB neg) s s
with Iter : regex -> mst -> nat -> mst -> Prop :=     (* exactly k iterations of the body *)
| IStop b s : Iter b s O s
| IMore b s s1 k s' : Matches b s s1 -> Iter b s1 k s' -> Iter b s (S k) s'.

Scheme Matches_mind := Induction for Matches Sort Prop
  with Iter_mind := Induction for Iter Sort Prop.
Combined Scheme Matches_Iter_ind from Matches_mind, Iter_mind.

Definition kapp (k : cont) (s : mst) : option result := k (st_i s) (st_p s) (st_rest s) (st_c s).

Definition sound (r : regex) (m : matcher) : Prop :=
  forall k i p rest c res, m k i p rest c = Some res ->
    exists s', Matches r (mkSt i p rest c) s' /\ kapp k s' = Some res.

Lemma loop_sound b mb k g mn mx : sound b mb ->
  forall fuel cnt last i p rest c res,
    loop mb k g mn mx fuel cnt last i p rest c = Some res ->
    exists n s', Iter b (mkSt i p rest c) n s' /\ mn <= cnt + N.of_nat n /\ kapp k s' = Some res.
Proof.
  intros Hb. induction fuel as [|f fuel IH]; intros cnt last i p rest c res H; cbn [loop] in H; [discriminate|].
  assert (More : forall last' res',
     mb (fun j p' r' c' => loop mb k g mn mx fuel (cnt + 1) last' j p' r' c') i p rest c = Some res' ->
     exists n s', Iter b (mkSt i p rest c) n s' /\ mn <= cnt + N.of_nat n /\ kapp k s' = Some res').
  { intros last' res' Hx. apply Hb in Hx as (s1 & M1 & Hx). destruct s1 as [i1 p1 r1 c1]. unfold kapp in Hx. cbn in Hx.
    apply IH in Hx as (n & s' & It & Hmn & Hk). exists (S n), s'. split; [econstructor; eauto|]. split; [lia|exact Hk]. }
  assert (Stop : forall res', cnt <? mn = false -> k i p rest c = Some res' ->
     exists n s', Iter b (mkSt i p rest c) n s' /\ mn <= cnt + N.of_nat n /\ kapp k s' = Some res').
  { intros res' E Hk. apply N.ltb_ge in E. exists O, (mkSt i p rest c). split; [constructor|]. split; [simpl; lia|exact Hk]. }
  destruct (cnt <? mn) eqn:E.
  - eapply More; eauto.
  - destruct g.
    + destruct (more_ok mx cnt && negb (same_pos last i)).
      * destruct (mb _ i p rest c) eqn:Em.
        -- inversion H; subst. eapply More; eauto.
        -- eapply Stop; eauto.
      * eapply Stop; eauto.
    + destruct (k i p rest c) eqn:Ek.
      * inversion H; subst. eapply Stop; eauto.
      * destruct (more_ok mx cnt && negb (same_pos last i)); [|discriminate]. eapply More; eauto.
Qed.

Theorem exec_sound r : sound r (exec r).
Proof.
  induction r; intros k i p rest c res H; cbn [exec] in H.
  - eexists; split; [constructor|exact H].
  - destruct rest as [|x t]; [discriminate|]. destruct (set_match neg items x) eqn:E; [|discriminate].
    eexists; split; [constructor; exact E|exact H].
  - destruct rest as [|x t]; [discriminate|]. destruct (dotall || negb (x =? 10)) eqn:E; [|discriminate].
    eexists; split; [constructor; exact E|exact H].
  - apply IHr1 in H as (s1 & M1 & H). destruct s1 as [i1 p1 r1' c1]. unfold kapp in H; cbn in H.
    apply IHr2 in H as (s2 & M2 & H). exists s2. split; [econstructor; eauto|exact H].
  - destruct (exec r1 k i p rest c) eqn:E1.
    + inversion H; subst. apply IHr1 in E1 as (s1 & M1 & Hk). exists s1. split; [apply MAltL; auto|auto].
    + apply IHr2 in H as (s1 & M1 & Hk). exists s1. split; [apply MAltR; auto|auto].
  - eapply loop_sound in H; eauto. destruct H as (n & s' & It & Hmn & Hk). exists s'. split; [econstructor; [exact It|lia]|auto].
  - apply IHr in H as (s1 & M1 & H). unfold kapp in H. cbn in H.
    eexists. split; [apply MGrp; exact M1|]. exact H.
  - destruct neg.
    + destruct (exec r _ i p rest c) as [[j c']|]; [discriminate|]. eexists; split; [constructor|exact H].
    + destruct (exec r _ i p rest c) as [[j c']|] eqn:E; [|discriminate].
      apply IHr in E as (s1 & M1 & Hk). unfold kapp in Hk. inversion Hk; subst.
      eexists. split; [apply MLookPos; exact M1|]. exact H.
  - destruct (cap_get n c) as [g|] eqn:Eg; [|discriminate].
    destruct (strip_prefix (cap_text g) rest p) as [[rest' p']|] eqn:E; [|discriminate].
    eexists. split; [eapply (MBref n (mkSt i p rest c)); eauto|]. exact H.
  - exists (mkSt i p rest c). split; [constructor|].
    destruct p as [x|]; [destruct (multiline && (x =? 10)); [|discriminate]|]; exact H.
  - exists (mkSt i p rest c). split; [constructor|].
    destruct rest as [|x t]; [exact H|].
    destruct ((x =? 10) && (multiline || match t with [] => true | _ => false end)); [exact H|discriminate].
  - exists (mkSt i p rest c). split; [constructor|]. destruct (_ && xorb neg _); [exact H|discriminate].
Qed.

(* ---- takeN / dropN over an append ---- *)
Lemma lenN_app a b : lenN (a ++ b) = lenN a + lenN b.
Proof. induction a as [|x a IH]; simpl; [reflexivity|]. rewrite IH. lia. Qed.

Lemma takeN_app_exact a b : takeN (lenN a) (a ++ b) = a.
Proof.
  induction a as [|x a IH]; simpl.
  - destruct b; reflexivity.
  - destruct (N.succ (lenN a) =? 0) eqn:E; [apply N.eqb_eq in E; lia|].
    rewrite N.pred_succ, IH. reflexivity.
Qed.

Lemma dropN_app_plus a b k : dropN (lenN a + k) (a ++ b) = dropN k b.
Proof.
  induction a as [|x a IH]; simpl.
  - reflexivity.
  - destruct (N.succ (lenN a) + k =? 0) eqn:E; [apply N.eqb_eq in E; lia|].
    replace (N.pred (N.succ (lenN a) + k)) with (lenN a + k) by lia. exact IH.
Qed.

Lemma dropN_0 b : dropN 0 b = b.
Proof. destruct b; reflexivity. Qed.

Lemma dropN_app_exact a b : dropN (lenN a) (a ++ b) = b.
Proof. rewrite <- (N.add_0_r (lenN a)), dropN_app_plus. apply dropN_0. Qed.

Lemma takeN_all (l : str) : takeN (lenN l) l = l.
Proof. rewrite <- (app_nil_r l) at 2. apply takeN_app_exact. Qed.

Lemma strip_prefix_app w : forall s last s' last', strip_prefix w s last = Some (s', last') -> s = w ++ s'.
Proof.
  induction w as [|x w IH]; intros s last s' last' H; simpl in H.
  - inversion H; subst; reflexivity.
  - destruct s as [|y t]; [discriminate|]. destruct (x =? y) eqn:E; [|discriminate].
    apply N.eqb_eq in E. subst y. simpl. f_equal. eapply IH; eauto.
Qed.

(* ---- positions and captures are consistent with one subject string ---- *)
Definition wfcap (subj : str) (g : cap) : Prop :=
  exists pre mid post, subj = pre ++ mid ++ post /\ c_s g = lenN pre /\ c_e g = lenN pre + lenN mid /\ c_txt g = mid ++ post.

Definition wfcaps (subj : str) (c : caps) : Prop := forall n g, In (n, g) c -> wfcap subj g.

Definition wfst (subj : str) (s : mst) : Prop :=
  (exists pre, subj = pre ++ st_rest s /\ st_i s = lenN pre) /\ wfcaps subj (st_c s).

Lemma wfcap_text subj g : wfcap subj g -> exists pre post, subj = pre ++ cap_text g ++ post /\ c_e g - c_s g = lenN (cap_text g).
Proof.
  intros (pre & mid & post & Hs & Hcs & Hce & Ht). unfold cap_text. rewrite Hcs, Hce, Ht.
  replace (lenN pre + lenN mid - lenN pre) with (lenN mid) by lia. rewrite takeN_app_exact. eauto.
Qed.

Lemma cap_get_In n c g : cap_get n c = Some g -> In (n, g) c.
Proof.
  induction c as [|[m x] t IH]; simpl; [discriminate|]. destruct (Nat.eqb n m) eqn:E.
  - intros H. inversion H; subst. apply PeanoNat.Nat.eqb_eq in E. subst. left. reflexivity.
  - intros H. right. auto.
Qed.

(* a step consumes a prefix [w] of what remains *)
Definition step_ok (subj : str) (s s' : mst) : Prop :=
  wfst subj s -> wfst subj s' /\ exists w, st_rest s = w ++ st_rest s' /\ st_i s' = st_i s + lenN w.

Lemma step_refl subj s : step_ok subj s s.
Proof. intros H. split; [exact H|]. exists []. simpl. split; [reflexivity|lia]. Qed.

Lemma step_trans subj s1 s2 s3 : step_ok subj s1 s2 -> step_ok subj s2 s3 -> step_ok subj s1 s3.
Proof.
  intros H1 H2 W. apply H1 in W as [W2 (w1 & E1 & I1)]. apply H2 in W2 as [W3 (w2 & E2 & I2)].
  split; [exact W3|]. exists (w1 ++ w2). rewrite <- app_assoc, <- E2, <- E1, lenN_app. split; [reflexivity|lia].
Qed.

Lemma step_char subj i p c x t : step_ok subj (mkSt i p (x :: t) c) (mkSt (i + 1) (Some x) t c).
Proof.
  intros [(pre & Hs & Hi) Hc]. cbn in *. split.
  - split; [|exact Hc]. exists (pre ++ [x]). cbn. rewrite <- app_assoc. split; [exact Hs|]. rewrite lenN_app. simpl. lia.
  - exists [x]. cbn. split; [reflexivity|lia].
Qed.

Theorem Matches_wf subj :
  (forall r s s', Matches r s s' -> step_ok subj s s') /\
  (forall b s k s', Iter b s k s' -> step_ok subj s s').
Proof.
  apply Matches_Iter_ind; intros; try apply step_refl; try apply step_char.
  - eapply step_trans; eauto.
  - assumption.
  - assumption.
  - assumption.
  - (* group *)
    intros W. pose proof W as W0. apply H in W as [W' (w & E & I)]. cbn [st_i st_p st_rest st_c]. split.
    + split; [exact (proj1 W')|]. intros k g [Hg|Hg]; [|eapply (proj2 W'); eauto].
      inversion Hg; subst. destruct W0 as [(pre & Hs & Hi) _].
      exists pre, w, (st_rest s'). cbn. split; [rewrite <- E; exact Hs|]. split; [exact Hi|]. split; [lia|exact E].
    + exists w. split; [exact E|exact I].
  - (* positive look-ahead *)
    intros W. pose proof W as W0. apply H in W as [W' _]. cbn. split.
    + split; [exact (proj1 W0)|exact (proj2 W')].
    + exists []. cbn. split; [reflexivity|lia].
  - (* back-reference *)
    intros W. destruct W as [(pre & Hs & Hi) Hc]. pose proof (strip_prefix_app _ _ _ _ _ e0) as E.
    apply cap_get_In in e. apply Hc in e. apply wfcap_text in e as (pre' & post' & _ & Hl).
    cbn [st_i st_p st_rest st_c]. split.
    + split; [|exact Hc]. exists (pre ++ cap_text g). cbn [st_i st_p st_rest st_c] in *. split.
      * rewrite <- app_assoc, <- E. exact Hs.
      * rewrite lenN_app, Hl. lia.
    + exists (cap_text g). split; [exact E|]. rewrite Hl. lia.
  - eapply step_trans; eauto.
Qed.

Definition factor (t subj : str) : Prop := exists a b, subj = a ++ t ++ b.

Lemma factor_refl s : factor s s.
Proof. exists [], []. rewrite app_nil_r. reflexivity. Qed.

Lemma factor_trans a b c : factor a b -> factor b c -> factor a c.
Proof.
  intros (x & y & ->) (u & v & ->). exists (u ++ x), (y ++ v). rewrite <- !app_assoc. reflexivity.
Qed.

Lemma factor_In t subj x : factor t subj -> In x t -> In x subj.
Proof. intros (a & b & ->) H. apply in_or_app. right. apply in_or_app. left. exact H. Qed.

Lemma group_list_nth c : forall n acc k, (k < n)%nat ->
  nth k (group_list n c acc) None = option_map cap_text (cap_get (S k) c).
Proof.
  (* group_list n c acc = [g1; ...; gn] ++ acc *)
  assert (G : forall n acc, group_list n c acc = map (fun j => option_map cap_text (cap_get (S j) c)) (seq 0 n) ++ acc).
  { induction n as [|n IH]; intros acc; [reflexivity|].
    cbn [group_list]. rewrite IH, seq_S, map_app, <- app_assoc. reflexivity. }
  intros n acc k Hk. rewrite G, app_nth1 by (rewrite map_length, seq_length; exact Hk).
  rewrite (nth_indep _ None (option_map cap_text (cap_get (S O) c))) by (rewrite map_length, seq_length; exact Hk).
  change (option_map cap_text (cap_get 1 c)) with ((fun j => option_map cap_text (cap_get (S j) c)) O).
  rewrite map_nth, seq_nth by exact Hk. reflexivity.
Qed.

Lemma group_list_length c : forall n acc, length (group_list n c acc) = (n + length acc)%nat.
Proof. induction n as [|n IH]; intros acc; [reflexivity|]. cbn [group_list]. rewrite IH. simpl. lia. Qed.

(* ---- what a reported match says about the subject ---- *)
Inductive match_spec (r : cre) (subj : str) (m : mres) : Prop :=
| MatchSpec pre w post p fin :
    subj = pre ++ w ++ post -> m_start m = lenN pre -> m_end m = lenN pre + lenN w ->
    m_groups m = Some w :: group_list (re_groups r) (st_c fin) [] ->
    Matches (re_ast r) (mkSt (lenN pre) p (w ++ post) []) fin ->
    st_rest fin = post -> wfcaps subj (st_c fin) -> match_spec r subj m.

Lemma match_at_spec r subj pre rest p m :
  subj = pre ++ rest -> match_at r (lenN pre) p rest = Some m -> match_spec r subj m.
Proof.
  intros Hs H. unfold match_at in H.
  destruct (exec (re_ast r) kfinal (lenN pre) p rest []) as [[e c]|] eqn:E; [|discriminate].
  cbn [option_map mk_mres] in H. inversion H; subst m; clear H.
  apply exec_sound in E as (s' & M & Hk). unfold kapp, kfinal in Hk. inversion Hk; subst e c; clear Hk.
  pose proof (proj1 (Matches_wf (pre ++ rest)) _ _ _ M) as St.
  destruct St as [[(pre' & Hs' & Hi') Hc'] (w & Ew & Iw)].
  { split; [exists pre; auto|]. intros n g []. }
  cbn in Ew, Iw. subst subj.
  apply (MatchSpec r _ _ pre w (st_rest s') p s'); cbn.
  - rewrite <- Ew. reflexivity.
  - reflexivity.
  - lia.
  - rewrite Iw. replace (lenN pre + lenN w - lenN pre) with (lenN w) by lia. rewrite Ew, takeN_app_exact. reflexivity.
  - rewrite <- Ew. exact M.
  - reflexivity.
  - exact Hc'.
Qed.

Lemma match_at_start r i p rest m : match_at r i p rest = Some m -> m_start m = i.
Proof.
  unfold match_at. destruct (exec _ _ _ _ _ _) as [[e c]|]; [|discriminate]. intros H. inversion H. reflexivity.
Qed.

Lemma search_from_spec r subj : forall rest pre p m,
  subj = pre ++ rest -> search_from r (lenN pre) p rest = Some m ->
  match_spec r subj m /\ lenN pre <= m_start m.
Proof.
  induction rest as [|x t IH]; intros pre p m Hs H; cbn [search_from] in H.
  - destruct (match_at r (lenN pre) p []) eqn:E; [|discriminate]. inversion H; subst m.
    split; [eapply match_at_spec; [exact Hs|exact E]|]. apply match_at_start in E. lia.
  - destruct (match_at r (lenN pre) p (x :: t)) eqn:E.
    + inversion H; subst m.
      split; [eapply match_at_spec; [exact Hs|exact E]|]. apply match_at_start in E. lia.
    + specialize (IH (pre ++ [x]) (Some x) m). rewrite lenN_app in IH. simpl in IH.
      rewrite <- app_assoc in IH. simpl in IH.
      replace (lenN pre + N.succ 0) with (lenN pre + 1) in IH by lia.
      apply IH in H; [|exact Hs]. destruct H as [H1 H2]. split; [exact H1|lia].
Qed.

Corollary re_search_spec r text m : re_search r text = Some m -> match_spec r text m.
Proof. intros H. eapply (search_from_spec r text text [] None m); eauto. Qed.

(* the pieces a caller cuts out of the subject with the reported span *)
Lemma match_spec_cut r text m : match_spec r text m ->
  exists before w after, text = before ++ w ++ after /\
    takeN (m_start m) text = before /\ dropN (m_end m) text = after /\ grp m 0 = Some w /\
    m_start m = lenN before /\ m_end m = lenN before + lenN w.
Proof.
  intros [pre w post p fin Hs Hst Hen Hg _ _ _]. exists pre, w, post.
  split; [exact Hs|]. rewrite Hst, Hen, Hs.
  split; [apply takeN_app_exact|].
  split; [rewrite dropN_app_plus; apply dropN_app_exact|].
  split; [unfold grp; rewrite Hg; reflexivity|auto].
Qed.

(* every group text is a factor of the subject *)
Lemma match_spec_group r text m k t : match_spec r text m -> grp m k = Some t -> factor t text.
Proof.
  intros [pre w post p fin Hs Hst Hen Hg _ _ Hwf] H. unfold grp in H. rewrite Hg in H.
  destruct k as [|k]; cbn [nth] in H.
  - inversion H; subst. exists pre, post. reflexivity.
  - destruct (Nat.ltb k (re_groups r)) eqn:E.
    + apply PeanoNat.Nat.ltb_lt in E. rewrite group_list_nth in H by exact E.
      destruct (cap_get (S k) (st_c fin)) as [g|] eqn:Eg; [|discriminate]. cbn in H. inversion H; subst.
      apply cap_get_In in Eg. apply Hwf in Eg. apply wfcap_text in Eg as (a & b & Ha & _). exists a, b. exact Ha.
    + apply PeanoNat.Nat.ltb_ge in E. rewrite nth_overflow in H; [discriminate|].
      rewrite group_list_length. simpl. lia.
Qed.

(* Analyses of regular expressions by recursion on the AST.
   Syntactic measures (star height, nullable loop bodies) used as table facts for C02,
   and a first-character analysis with a soundness theorem w.r.t. the matcher [exec]:
   a non-nullable pattern can only match where the subject continues with a character
   of its first-set. *)
From Rimu Require Import Base Unicode Regex.
From Coq Require Import Lia.

Fixpoint nullable (r : regex) : bool :=
  match r with
  | REps => true
  | RSet _ _ => false
  | RAny _ => false
  | RSeq a b => nullable a && nullable b
  | RAlt a b => nullable a || nullable b
  | RRep _ mn _ b => (mn =? 0) || nullable b
  | RGrp _ b => nullable b
  | RLook _ _ => true
  | RBref _ => true
  | RBol _ => true
  | REol _ => true
  | RWordB _ => true
  end.

(* can a match of r that consumes at least one character start with x? (over-approximation) *)
Fixpoint first (r : regex) (x : char) : bool :=
  match r with
  | REps => false
  | RSet neg items => set_match neg items x
  | RAny dotall => dotall || negb (x =? 10)
  | RSeq a b => first a x || (nullable a && first b x)
  | RAlt a b => first a x || first b x
  | RRep _ _ _ b => first b x
  | RGrp _ b => first b x
  | RLook _ _ => false
  | RBref _ => true
  | RBol _ => false
  | REol _ => false
  | RWordB _ => false
  end.

Fixpoint star_height (r : regex) : nat :=
  match r with
  | RSeq a b | RAlt a b => Nat.max (star_height a) (star_height b)
  | RRep _ _ None b => S (star_height b)
  | RRep _ _ (Some _) b => star_height b
  | RGrp _ b | RLook _ b => star_height b
  | _ => O
  end.

(* alternatives under an unbounded repetition start with different characters (over a test alphabet):
   otherwise one subject has several iteration histories and a failing continuation tries them all *)
Fixpoint alts (r : regex) : list regex :=
  match r with RAlt a b => alts a ++ alts b | RGrp _ b => alts b | _ => [r] end.

Fixpoint pairwise_disjoint (A : list char) (l : list regex) : bool :=
  match l with
  | [] => true
  | a :: t => forallb (fun b => negb (existsb (fun x => first a x && first b x) A)) t && pairwise_disjoint A t
  end.

Fixpoint loop_alts_disjoint (A : list char) (r : regex) : bool :=
  match r with
  | RSeq a b | RAlt a b => loop_alts_disjoint A a && loop_alts_disjoint A b
  | RRep _ _ None b => pairwise_disjoint A (alts b) && loop_alts_disjoint A b
  | RRep _ _ (Some _) b => loop_alts_disjoint A b
  | RGrp _ b | RLook _ b => loop_alts_disjoint A b
  | _ => true
  end.

Definition latin1 : list char := map N.of_nat (seq 0 256).

(* no unbounded repetition over a body that can match the empty string *)
Fixpoint no_nullable_loop (r : regex) : bool :=
  match r with
  | RSeq a b | RAlt a b => no_nullable_loop a && no_nullable_loop b
  | RRep _ _ None b => negb (nullable b) && no_nullable_loop b
  | RRep _ _ (Some _) b => no_nullable_loop b
  | RGrp _ b | RLook _ b => no_nullable_loop b
  | _ => true
  end.

(* ---- soundness of [first] ---- *)
Definition first_spec (r : regex) (m : matcher) : Prop :=
  forall k i p rest c res, m k i p rest c = Some res ->
    (nullable r = true /\ exists i' c', k i' p rest c' = Some res) \/
    (exists x t, rest = x :: t /\ first r x = true).

Lemma loop_first b mb k greedy mn mx :
  first_spec b mb ->
  forall fuel cnt last i p rest c res,
    (cnt = 0 \/ nullable b = true) ->
    loop mb k greedy mn mx fuel cnt last i p rest c = Some res ->
    ((mn = 0 \/ nullable b = true) /\ exists i' c', k i' p rest c' = Some res) \/
    (exists x t, rest = x :: t /\ first b x = true).
Proof.
  intros Hb. induction fuel as [|f fuel IH]; intros cnt last i p rest c res Hc H; cbn [loop] in H; [discriminate|].
  assert (More : forall last' res',
     mb (fun j p' r' c' => loop mb k greedy mn mx fuel (cnt + 1) last' j p' r' c') i p rest c = Some res' ->
     ((mn = 0 \/ nullable b = true) /\ exists i' c', k i' p rest c' = Some res') \/
     (exists x t, rest = x :: t /\ first b x = true)).
  { intros last' res' Hm. apply Hb in Hm as [[Hn (i' & c' & Hk)]|Hf]; [|right; exact Hf].
    apply IH in Hk; [exact Hk | right; exact Hn]. }
  destruct (cnt <? mn) eqn:E.
  - apply More in H. exact H.
  - apply N.ltb_ge in E.
    assert (Stop : forall res', k i p rest c = Some res' ->
       ((mn = 0 \/ nullable b = true) /\ exists i' c', k i' p rest c' = Some res') \/
       (exists x t, rest = x :: t /\ first b x = true)).
    { intros res' Hk. left. split; [|eauto]. destruct Hc as [-> | Hn]; [left; lia|right; exact Hn]. }
    destruct greedy.
    + destruct (more_ok mx cnt && negb (same_pos last i)).
      * destruct (mb _ i p rest c) eqn:Em.
        -- inversion H; subst. eapply More; eauto.
        -- eapply Stop; eauto.
      * eapply Stop; eauto.
    + destruct (k i p rest c) eqn:Ek.
      * inversion H; subst. eapply Stop; eauto.
      * destruct (more_ok mx cnt && negb (same_pos last i)); [|discriminate]. eapply More; eauto.
Qed.

Theorem exec_first r : first_spec r (exec r).
Proof.
  induction r; intros k i p rest c res H; cbn [exec] in H; cbn [nullable first].
  - left. eauto.
  - destruct rest as [|x t]; [discriminate|]. destruct (set_match neg items x) eqn:E; [|discriminate]. right. eauto.
  - destruct rest as [|x t]; [discriminate|]. destruct (dotall || negb (x =? 10)) eqn:E; [|discriminate]. right. eauto.
  - apply IHr1 in H as [[Hn (i' & c' & Hk)]|(x & t & Hr & Hf)].
    + apply IHr2 in Hk as [[Hn2 Hk]|(x & t & Hr & Hf)].
      * left. rewrite Hn, Hn2. auto.
      * right. exists x, t. rewrite Hn, Hf. split; auto. apply orb_true_r.
    + right. exists x, t. rewrite Hf. auto.
  - destruct (exec r1 k i p rest c) eqn:E1.
    + inversion H; subst. apply IHr1 in E1 as [[Hn Hk]|(x & t & Hr & Hf)].
      * left. rewrite Hn. auto.
      * right. exists x, t. rewrite Hf. auto.
    + apply IHr2 in H as [[Hn Hk]|(x & t & Hr & Hf)].
      * left. rewrite Hn, orb_true_r. auto.
      * right. exists x, t. rewrite Hf, orb_true_r. auto.
  - eapply loop_first in H; eauto.
    destruct H as [[Hn Hk]|Hf]; [left|right; exact Hf]. split; auto.
    destruct Hn as [-> | ->]; [reflexivity|apply orb_true_r].
  - apply IHr in H as [[Hn (i' & c' & Hk)]|Hf]; [left|right; exact Hf]. split; eauto.
  - left. split; auto.
    destruct (exec r _ i p rest c) as [[j c']|]; destruct neg; try discriminate; eauto.
  - destruct (cap_get n c) as [g|]; [|discriminate].
    destruct (strip_prefix (cap_text g) rest p) as [[rest' p']|] eqn:E; [|discriminate].
    destruct (cap_text g) as [|w ws] eqn:Ew.
    + left. split; auto. simpl in E. inversion E; subst. eauto.
    + right. simpl in E. destruct rest as [|y s']; [discriminate|]. exists y, s'. auto.
  - left. split; auto. destruct p as [x|]; [destruct (multiline && (x =? 10)); [|discriminate]|]; eauto.
  - left. split; auto. destruct rest as [|x t]; [eauto|].
    destruct ((x =? 10) && (multiline || match t with [] => true | _ => false end)); [eauto|discriminate].
  - left. split; auto. destruct (_ && xorb neg _); [eauto|discriminate].
Qed.

(* a pattern that cannot match the empty string matches only where the subject continues with a first character *)
Corollary exec_nonnull_first r k i p rest c res :
  nullable r = false -> exec r k i p rest c = Some res -> exists x t, rest = x :: t /\ first r x = true.
Proof.
  intros Hn H. apply exec_first in H as [[Hn' _]|H]; [congruence|exact H].
Qed.

(* two non-nullable alternatives with disjoint first sets on the subject's next character never both match there,
   whatever the continuations: the iteration history of a loop over them is determined by the subject *)
Theorem alternatives_exclusive a b k k' i p x t c r1 r2 :
  nullable a = false -> nullable b = false -> first a x && first b x = false ->
  exec a k i p (x :: t) c = Some r1 -> exec b k' i p (x :: t) c = Some r2 -> False.
Proof.
  intros Na Nb D Ha Hb.
  apply exec_nonnull_first in Ha as (x1 & t1 & E1 & F1); [|exact Na].
  apply exec_nonnull_first in Hb as (x2 & t2 & E2 & F2); [|exact Nb].
  inversion E1; subst. inversion E2; subst. rewrite F1, F2 in D. discriminate.
Qed.

(* text none of whose characters can start a match: search finds nothing *)
Theorem search_from_none (r : cre) : nullable (re_ast r) = false ->
  forall rest i p, (forall x, In x rest -> first (re_ast r) x = false) -> search_from r i p rest = None.
Proof.
  intros Hn. induction rest as [|x t IH]; intros i p Hf; cbn [search_from].
  - unfold match_at. destruct (exec _ _ _ _ _ _) eqn:E; auto.
    apply exec_nonnull_first in E as (y & s' & Hy & _); auto. discriminate.
  - unfold match_at. destruct (exec _ _ _ _ _ _) eqn:E.
    + apply exec_nonnull_first in E as (y & s' & Hy & Hfy); auto. inversion Hy; subst.
      rewrite Hf in Hfy by (left; reflexivity). discriminate.
    + cbn [option_map]. apply IH. intros y Hy. apply Hf. right. exact Hy.
Qed.

Corollary re_search_none (r : cre) text :
  nullable (re_ast r) = false -> (forall x, In x text -> first (re_ast r) x = false) -> re_search r text = None.
Proof. intros. apply search_from_none; auto. Qed.

Corollary re_scan_none (r : cre) text :
  nullable (re_ast r) = false -> (forall x, In x text -> first (re_ast r) x = false) -> re_scan r text = ([], text).
Proof. intros Hn Hf. unfold re_scan. cbn [scan_loop]. rewrite search_from_none; auto. Qed.

Corollary re_sub_none (r : cre) f text :
  nullable (re_ast r) = false -> (forall x, In x text -> first (re_ast r) x = false) -> re_sub r f text = text.
Proof. intros Hn Hf. unfold re_sub. rewrite re_scan_none; auto. Qed.

(* ---- alphabet analysis: can r match (possibly the empty string) inside text over alphabet A? ---- *)
Section Alphabet.
Variable A : list char.

Fixpoint okA (r : regex) : bool :=
  match r with
  | REps => true
  | RSet neg items => existsb (set_match neg items) A
  | RAny dotall => existsb (fun x => dotall || negb (x =? 10)) A
  | RSeq a b => okA a && okA b
  | RAlt a b => okA a || okA b
  | RRep _ mn _ b => (mn =? 0) || okA b
  | RGrp _ b => okA b
  | RLook false b => okA b
  | RLook true _ => true
  | RBref _ => true
  | RBol _ | REol _ | RWordB _ => true
  end.

Definition over (s : str) : Prop := forall x, In x s -> In x A.

Definition ok_spec (r : regex) (m : matcher) : Prop :=
  forall k i p rest c res, over rest -> m k i p rest c = Some res ->
    okA r = true /\ exists j p' rest' c', over rest' /\ k j p' rest' c' = Some res.

Lemma loop_ok b mb k greedy mn mx :
  ok_spec b mb ->
  forall fuel cnt last i p rest c res, over rest ->
    (cnt = 0 \/ okA b = true) ->
    loop mb k greedy mn mx fuel cnt last i p rest c = Some res ->
    (mn = 0 \/ okA b = true) /\ exists j p' rest' c', over rest' /\ k j p' rest' c' = Some res.
Proof.
  intros Hb. induction fuel as [|f fuel IH]; intros cnt last i p rest c res Ho Hc H; cbn [loop] in H; [discriminate|].
  assert (More : forall last' res',
     mb (fun j p' r' c' => loop mb k greedy mn mx fuel (cnt + 1) last' j p' r' c') i p rest c = Some res' ->
     (mn = 0 \/ okA b = true) /\ exists j p' rest' c', over rest' /\ k j p' rest' c' = Some res').
  { intros last' res' Hm. apply Hb in Hm as [Hok (j & p' & rest' & c' & Ho' & Hk)]; auto.
    apply IH in Hk; auto. }
  assert (Stop : forall res', cnt <? mn = false -> k i p rest c = Some res' ->
     (mn = 0 \/ okA b = true) /\ exists j p' rest' c', over rest' /\ k j p' rest' c' = Some res').
  { intros res' E Hk. apply N.ltb_ge in E. split; [|eauto 10].
    destruct Hc as [-> | Hn]; [left; lia|right; exact Hn]. }
  destruct (cnt <? mn) eqn:E.
  - apply More in H. exact H.
  - destruct greedy.
    + destruct (more_ok mx cnt && negb (same_pos last i)).
      * destruct (mb _ i p rest c) eqn:Em.
        -- inversion H; subst. eapply More; eauto.
        -- eapply Stop; eauto.
      * eapply Stop; eauto.
    + destruct (k i p rest c) eqn:Ek.
      * inversion H; subst. eapply Stop; eauto.
      * destruct (more_ok mx cnt && negb (same_pos last i)); [|discriminate]. eapply More; eauto.
Qed.

Lemma strip_prefix_over w : forall s last s' last', over s -> strip_prefix w s last = Some (s', last') -> over s'.
Proof.
  induction w as [|x w IH]; intros s last s' last' Ho H; simpl in H.
  - inversion H; subst; auto.
  - destruct s as [|y t]; [discriminate|]. destruct (x =? y); [|discriminate].
    eapply IH; [|exact H]. intros z Hz. apply Ho. right. exact Hz.
Qed.

Theorem exec_ok r : ok_spec r (exec r).
Proof.
  induction r; intros k i p rest c res Ho H; cbn [exec] in H; cbn [okA].
  - split; eauto 10.
  - destruct rest as [|x t]; [discriminate|]. destruct (set_match neg items x) eqn:E; [|discriminate].
    split.
    + apply existsb_exists. exists x. split; auto. apply Ho. left. reflexivity.
    + exists (i + 1), (Some x), t, c. split; auto. intros z Hz. apply Ho. right. exact Hz.
  - destruct rest as [|x t]; [discriminate|]. destruct (dotall || negb (x =? 10)) eqn:E; [|discriminate].
    split.
    + apply existsb_exists. exists x. split; auto. apply Ho. left. reflexivity.
    + exists (i + 1), (Some x), t, c. split; auto. intros z Hz. apply Ho. right. exact Hz.
  - apply IHr1 in H as [H1 (j & p' & rest' & c' & Ho' & Hk)]; auto.
    apply IHr2 in Hk as [H2 Hk]; auto. rewrite H1, H2. auto.
  - destruct (exec r1 k i p rest c) eqn:E1.
    + inversion H; subst. apply IHr1 in E1 as [H1 Hk]; auto. rewrite H1. auto.
    + apply IHr2 in H as [H2 Hk]; auto. rewrite H2, orb_true_r. auto.
  - eapply loop_ok in H; eauto. destruct H as [Hn Hk]. split; auto.
    destruct Hn as [-> | ->]; [reflexivity|apply orb_true_r].
  - apply IHr in H as [H1 (j & p' & rest' & c' & Ho' & Hk)]; auto. split; eauto 10.
  - destruct neg.
    + split; auto. destruct (exec r _ i p rest c) as [[j c']|]; [discriminate|]. eauto 10.
    + destruct (exec r _ i p rest c) as [[j c']|] eqn:E; [|discriminate].
      apply IHr in E as [H1 _]; auto. split; eauto 10.
  - split; auto. destruct (cap_get n c) as [g|]; [|discriminate].
    destruct (strip_prefix (cap_text g) rest p) as [[rest' p']|] eqn:E; [|discriminate].
    apply strip_prefix_over in E; auto. eauto 10.
  - split; auto. destruct p as [x|]; [destruct (multiline && (x =? 10)); [|discriminate]|]; eauto 10.
  - split; auto. destruct rest as [|x t]; [eauto 10|].
    destruct ((x =? 10) && (multiline || match t with [] => true | _ => false end)); [eauto 10|discriminate].
  - split; auto. destruct (_ && xorb neg _); [eauto 10|discriminate].
Qed.

(* a pattern that cannot match inside A* has no match in any text over A *)
Theorem search_from_none_over (r : cre) : okA (re_ast r) = false ->
  forall rest i p, over rest -> search_from r i p rest = None.
Proof.
  intros Hn. induction rest as [|x t IH]; intros i p Ho; cbn [search_from]; unfold match_at.
  - destruct (exec _ _ _ _ _ _) eqn:E; auto. apply exec_ok in E as [E _]; auto. congruence.
  - destruct (exec _ _ _ _ _ _) eqn:E.
    + apply exec_ok in E as [E _]; auto. congruence.
    + cbn [option_map]. apply IH. intros z Hz. apply Ho. right. exact Hz.
Qed.

Corollary re_search_none_over (r : cre) text : okA (re_ast r) = false -> over text -> re_search r text = None.
Proof. intros. apply search_from_none_over; auto. Qed.

Corollary re_scan_none_over (r : cre) text : okA (re_ast r) = false -> over text -> re_scan r text = ([], text).
Proof. intros Hn Ho. unfold re_scan. cbn [scan_loop]. rewrite search_from_none_over; auto. Qed.

Corollary re_sub_none_over (r : cre) f text : okA (re_ast r) = false -> over text -> re_sub r f text = text.
Proof. intros Hn Ho. unfold re_sub. rewrite re_scan_none_over; auto. Qed.
End Alphabet.

(* Analyses of regular expressions by recursion on the AST.
   Syntactic measures (star height, nullable loop bodies) used as table facts for C02,
   and a first-character analysis with a soundness theorem w.r.t. the matcher [exec]:
   a non-nullable pattern can only match where the subject continues with a character
   of its first-set. *)
From Rimu Require Import Base Unicode Regex.
From Coq Require Import Lia.

Fixpoint nullable (r : regex) : bool :=
  match r with
  | REps => true
  | RSet _ _ => false
  | RAny _ => false
  | RSeq a b => nullable a && nullable b
  | RAlt a b => nullable a || nullable b
  | RRep _ mn _ b => (mn =? 0) || nullable b
  | RGrp _ b => nullable b
  | RLook _ _ => true
  | RBref _ => true
  | RBol _ => true
  | REol _ => true
  | RWordB _ => true
  end.

(* can a match of r that consumes at least one character start with x? (over-approximation) *)
Fixpoint first (r : regex) (x : char) : bool :=
  match r with
  | REps => false
  | RSet neg items => set_match neg items x
  | RAny dotall => dotall || negb (x =? 10)
  | RSeq a b => first a x || (nullable a && first b x)
  | RAlt a b => first a x || first b x
  | RRep _ _ _ b => first b x
  | RGrp _ b => first b x
  | RLook _ _ => false
  | RBref _ => true
  | RBol _ => false
  | REol _ => false
  | RWordB _ => false
  end.

Fixpoint star_height (r : regex) : nat :=
  match r with
  | RSeq a b | RAlt a b => Nat.max (star_height a) (star_height b)
  | RRep _ _ None b => S (star_height b)
  | RRep _ _ (Some _) b => star_height b
  | RGrp _ b | RLook _ b => star_height b
  | _ => O
  end.

(* no unbounded repetition over a body that can match the empty string *)
Fixpoint no_nullable_loop (r : regex) : bool :=
  match r with
  | RSeq a b | RAlt a b => no_nullable_loop a && no_nullable_loop b
  | RRep _ _ None b => negb (nullable b) && no_nullable_loop b
  | RRep _ _ (Some _) b => no_nullable_loop b
  | RGrp _ b | RLook _ b => no_nullable_loop b
  | _ => true
  end.

(* ---- soundness of [first] ---- *)
Definition first_spec (r : regex) (m : matcher) : Prop :=
  forall k i p rest c res, m k i p rest c = Some res ->
    (nullable r = true /\ exists i' c', k i' p rest c' = Some res) \/
    (exists x t, rest = x :: t /\ first r x = true).

Lemma loop_first b mb k greedy mn mx :
  first_spec b mb ->
  forall fuel cnt last i p rest c res,
    (cnt = 0 \/ nullable b = true) ->
    loop mb k greedy mn mx fuel cnt last i p rest c = Some res ->
    ((mn = 0 \/ nullable b = true) /\ exists i' c', k i' p rest c' = Some res) \/
    (exists x t, rest = x :: t /\ first b x = true).
Proof.
  intros Hb. induction fuel as [|f fuel IH]; intros cnt last i p rest c res Hc H; cbn [loop] in H; [discriminate|].
  assert (More : forall last' res',
     mb (fun j p' r' c' => loop mb k greedy mn mx fuel (cnt + 1) last' j p' r' c') i p rest c = Some res' ->
     ((mn = 0 \/ nullable b = true) /\ exists i' c', k i' p rest c' = Some res') \/
     (exists x t, rest = x :: t /\ first b x = true)).
  { intros last' res' Hm. apply Hb in Hm as [[Hn (i' & c' & Hk)]|Hf]; [|right; exact Hf].
    apply IH in Hk; [exact Hk | right; exact Hn]. }
  destruct (cnt <? mn) eqn:E.
  - apply More in H. exact H.
  - apply N.ltb_ge in E.
    assert (Stop : forall res', k i p rest c = Some res' ->
       ((mn = 0 \/ nullable b = true) /\ exists i' c', k i' p rest c' = Some res') \/
       (exists x t, rest = x :: t /\ first b x = true)).
    { intros res' Hk. left. split; [|eauto]. destruct Hc as [->|Hn]; [left; lia|right; exact Hn]. }
    destruct greedy.
    + destruct (more_ok mx cnt && negb (same_pos last i)).
      * destruct (mb _ i p rest c) eqn:Em.
        -- inversion H; subst. eapply More; eauto.
        -- eapply Stop; eauto.
      * eapply Stop; eauto.
    + destruct (k i p rest c) eqn:Ek.
      * inversion H; subst. eapply Stop; eauto.
      * destruct (more_ok mx cnt && negb (same_pos last i)); [|discriminate]. eapply More; eauto.
Qed.

Theorem exec_first r : first_spec r (exec r).
Proof.
  induction r; intros k i p rest c res H; cbn [exec] in H; cbn [nullable first].
  - left. eauto.
  - destruct rest as [|x t]; [discriminate|]. destruct (set_match neg items x) eqn:E; [|discriminate]. right. eauto.
  - destruct rest as [|x t]; [discriminate|]. destruct (dotall || negb (x =? 10)) eqn:E; [|discriminate]. right. eauto.
  - apply IHr1 in H as [[Hn (i' & c' & Hk)]|(x & t & -> & Hf)].
    + apply IHr2 in Hk as [[Hn2 Hk]|(x & t & -> & Hf)].
      * left. rewrite Hn, Hn2. auto.
      * right. exists x, t. rewrite Hn, Hf. split; auto. apply orb_true_r.
    + right. exists x, t. rewrite Hf. auto.
  - destruct (exec r1 k i p rest c) eqn:E1.
    + inversion H; subst. apply IHr1 in E1 as [[Hn Hk]|(x & t & -> & Hf)].
      * left. rewrite Hn. auto.
      * right. exists x, t. rewrite Hf. auto.
    + apply IHr2 in H as [[Hn Hk]|(x & t & -> & Hf)].
      * left. rewrite Hn, orb_true_r. auto.
      * right. exists x, t. rewrite Hf, orb_true_r. auto.
  - eapply loop_first in H; eauto.
    destruct H as [[Hn Hk]|Hf]; [left|right; exact Hf]. split; auto.
    destruct Hn as [->|->]; [reflexivity|apply orb_true_r].
  - apply IHr in H as [[Hn (i' & c' & Hk)]|Hf]; [left|right; exact Hf]. split; eauto.
  - left. split; auto.
    destruct (exec r _ i p rest c) as [[j c']|]; destruct neg; try discriminate; eauto.
  - left. split; auto. destruct (cap_get n c) as [g|]; [|discriminate].
    destruct (strip_prefix (cap_text g) rest p) as [[rest' p']|] eqn:E; [|discriminate].
    (* a back-reference may consume: over-approximated by first = true; here only the shape matters *)
    destruct (cap_text g) as [|w ws] eqn:Ew.
    + simpl in E. inversion E; subst. eauto.
    + (* consumed at least one character: report it through the right disjunct instead *)
      exfalso. exact (False_ind _ ltac:(idtac; fail)).

(* Executable model of the fragment of Python's `re` that rimu-py uses:
   a backtracking matcher in continuation-passing style with captures,
   back-references, look-ahead, greedy/lazy bounded repetition, anchors.
   IGNORECASE is compiled away by the translator (explicit code-point sets). *)
From Rimu Require Import Base.
From Rimu Require Import Unicode.

Inductive cat := CatSpace | CatWord | CatDigit.
Inductive citem := IRange (lo hi : N) | ICat (c : cat) (neg : bool).

Inductive regex :=
| REps
| RSet (neg : bool) (items : list citem)
| RAny (dotall : bool)
| RSeq (a b : regex)
| RAlt (a b : regex)
| RRep (greedy : bool) (mn : N) (mx : option N) (b : regex)
| RGrp (n : nat) (b : regex)
| RLook (neg : bool) (b : regex)
| RBref (n : nat)
| RBol (multiline : bool)
| REol (multiline : bool)
| RWordB (neg : bool).

(* A compiled pattern: AST and number of capture groups (Pattern.groups). *)
Record cre := { re_ast : regex; re_groups : nat }.

Definition in_cat (c : cat) (x : char) : bool :=
  match c with
  | CatSpace => in_ranges x space_ranges
  | CatWord => in_ranges x word_ranges
  | CatDigit => in_ranges x digit_ranges
  end.

Definition in_item (x : char) (it : citem) : bool :=
  match it with
  | IRange lo hi => (lo <=? x) && (x <=? hi)
  | ICat c neg => xorb neg (in_cat c x)
  end.

Definition in_items (x : char) (items : list citem) : bool := existsb (in_item x) items.

Definition set_match (neg : bool) (items : list citem) (x : char) : bool :=
  xorb neg (in_items x items).

(* Captures: group number -> (start, end, suffix of the subject at start). *)
Record cap := { c_s : N; c_e : N; c_txt : str }.
Definition caps := list (nat * cap).

Fixpoint cap_get (n : nat) (c : caps) : option cap :=
  match c with
  | [] => None
  | (m, x) :: t => if Nat.eqb n m then Some x else cap_get n t
  end.

Fixpoint takeN (n : N) (l : str) : str :=
  match l with
  | [] => []
  | x :: t => if n =? 0 then [] else x :: takeN (N.pred n) t
  end.

Fixpoint dropN (n : N) (l : str) : str :=
  match l with
  | [] => []
  | x :: t => if n =? 0 then l else dropN (N.pred n) t
  end.

Definition cap_text (c : cap) : str := takeN (c_e c - c_s c) (c_txt c).

(* Strip prefix w from s; returns remaining suffix and the last char consumed. *)
Fixpoint strip_prefix (w s : str) (last : option char) : option (str * option char) :=
  match w with
  | [] => Some (s, last)
  | x :: w' => match s with
               | y :: s' => if x =? y then strip_prefix w' s' (Some y) else None
               | [] => None
               end
  end.

Definition is_word (o : option char) : bool :=
  match o with Some x => in_cat CatWord x | None => false end.

Definition result := (N * caps)%type.
(* position, previous char, remaining subject, captures *)
Definition cont := N -> option char -> str -> caps -> option result.
Definition matcher := cont -> N -> option char -> str -> caps -> option result.

Definition more_ok (mx : option N) (cnt : N) : bool :=
  match mx with Some x => cnt <? x | None => true end.

(* Repetition over an abstract body matcher, following sre's MAX_UNTIL / MIN_UNTIL:
   below the minimum the body must match again; above it another iteration is tried
   only if the position differs from the one at which the previous optional iteration
   was started ([last], sre's last_ptr: an iteration that consumes nothing is allowed to
   complete, with its captures, but is the last one).  [fuel] bounds the number of
   iterations: minimum count + 2 cells followed by the subject suffix itself. *)
Definition same_pos (last : option N) (i : N) : bool :=
  match last with Some l => l =? i | None => false end.

Fixpoint loop (mb : matcher) (k : cont) (greedy : bool) (mn : N) (mx : option N)
         (fuel : str) (cnt : N) (last : option N) (i : N) (p : option char) (rest : str) (c : caps)
         {struct fuel} : option result :=
  match fuel with
  | [] => None
  | _ :: fuel' =>
    if cnt <? mn then
      mb (fun j p' r' c' => loop mb k greedy mn mx fuel' (cnt + 1) last j p' r' c') i p rest c
    else
      (* thunks: the extracted code is strict, only the branch taken may be evaluated *)
      let try_more := fun _ : unit =>
        if more_ok mx cnt && negb (same_pos last i) then
          mb (fun j p' r' c' => loop mb k greedy mn mx fuel' (cnt + 1) (Some i) j p' r' c') i p rest c
        else None in
      let stop := fun _ : unit => k i p rest c in
      if greedy
      then match try_more tt with Some x => Some x | None => stop tt end
      else match stop tt with Some x => Some x | None => try_more tt end
  end.

(* mn + 2 cells followed by the subject suffix itself (shared, not copied) *)
Definition rep_fuel (mn : N) (rest : str) : str :=
  repeat 0 (S (S (N.to_nat mn))) ++ rest.

Fixpoint exec (r : regex) (k : cont) (i : N) (p : option char) (rest : str) (c : caps)
         {struct r} : option result :=
  match r with
  | REps => k i p rest c
  | RSet neg items =>
      match rest with
      | x :: t => if set_match neg items x then k (i + 1) (Some x) t c else None
      | [] => None
      end
  | RAny dotall =>
      match rest with
      | x :: t => if dotall || negb (x =? 10) then k (i + 1) (Some x) t c else None
      | [] => None
      end
  | RSeq a b => exec a (fun j p' r' c' => exec b k j p' r' c') i p rest c
  | RAlt a b =>
      match exec a k i p rest c with
      | Some x => Some x
      | None => exec b k i p rest c
      end
  | RRep greedy mn mx b =>
      loop (exec b) k greedy mn mx (rep_fuel mn rest) 0 None i p rest c
  | RGrp n b =>
      exec b (fun j p' r' c' => k j p' r' ((n, {| c_s := i; c_e := j; c_txt := rest |}) :: c')) i p rest c
  | RLook neg b =>
      match exec b (fun j _ _ c' => Some (j, c')) i p rest c with
      | Some (_, c') => if neg then None else k i p rest c'
      | None => if neg then k i p rest c else None
      end
  | RBref n =>
      match cap_get n c with
      | None => None
      | Some g =>
          let w := cap_text g in
          match strip_prefix w rest p with
          | Some (rest', p') => k (i + (c_e g - c_s g)) p' rest' c
          | None => None
          end
      end
  | RBol ml =>
      match p with
      | None => k i p rest c
      | Some x => if ml && (x =? 10) then k i p rest c else None
      end
  | REol ml =>
      match rest with
      | [] => k i p rest c
      | x :: t =>
          if (x =? 10) && (ml || match t with [] => true | _ => false end)
          then k i p rest c else None
      end
  | RWordB neg =>
      (* sre: neither \b nor \B matches anywhere in an empty subject *)
      if (match p, rest with None, [] => false | _, _ => true end) && xorb neg (xorb (is_word p) (is_word (hd_error rest)))
      then k i p rest c else None
  end.

Definition kfinal : cont := fun j _ _ c => Some (j, c).

(* Match object: span of group 0 and text of every group 0..groups. *)
Record mres := { m_start : N; m_end : N; m_groups : list (option str) }.

Fixpoint group_list (n : nat) (c : caps) (acc : list (option str)) : list (option str) :=
  (* groups n, n-1, ..., 1 prepended in increasing order *)
  match n with
  | O => acc
  | S n' => group_list n' c (option_map cap_text (cap_get n c) :: acc)
  end.

Definition mk_mres (groups : nat) (i : N) (rest : str) (r : result) : mres :=
  let (e, c) := r in
  {| m_start := i; m_end := e;
     m_groups := Some (takeN (e - i) rest) :: group_list groups c [] |}.

(* Pattern.match at position i (anchored at i). *)
Definition match_at (r : cre) (i : N) (p : option char) (rest : str) : option mres :=
  option_map (mk_mres (re_groups r) i rest) (exec (re_ast r) kfinal i p rest []).

(* Pattern.search from position i: leftmost start with any match. *)
Fixpoint search_from (r : cre) (i : N) (p : option char) (rest : str) {struct rest} : option mres :=
  match match_at r i p rest with
  | Some m => Some m
  | None =>
      match rest with
      | [] => None
      | x :: t => search_from r (i + 1) (Some x) t
      end
  end.

Definition re_search (r : cre) (s : str) : option mres := search_from r 0 None s.
Definition re_match (r : cre) (s : str) : option mres := match_at r 0 None s.

(* Pattern.search(text, pos): skips pos characters, keeping the previous character. *)
Fixpoint skip_to (n : N) (i : N) (p : option char) (s : str) : (N * option char * str) :=
  match s with
  | [] => (i, p, s)
  | x :: t => if n =? 0 then (i, p, s) else skip_to (N.pred n) (i + 1) (Some x) t
  end.

Definition re_search_pos (r : cre) (s : str) (pos : N) : option mres :=
  (* a pos beyond the end is clamped to the end, as in CPython *)
  let '(i, p, rest) := skip_to pos 0 None s in search_from r i p rest.

Definition grp (m : mres) (n : nat) : option str := nth n (m_groups m) None.
Definition grp_s (m : mres) (n : nat) : str := match grp m n with Some s => s | None => [] end.
Definition grp0 (m : mres) : str := grp_s m 0.

(* Left-to-right non-overlapping scan (the iteration underlying re.sub / re.split /
   finditer): the text before each match with the match, and the final tail.
   After an empty match one character is skipped (it joins the next "before"). *)
Fixpoint scan_loop (r : cre) (fuel : list unit) (i : N) (p : option char) (rest : str)
         {struct fuel} : list (str * mres) * str :=
  match fuel with
  | [] => ([], rest)
  | _ :: fuel' =>
      match search_from r i p rest with
      | None => ([], rest)
      | Some m =>
          let before := takeN (m_start m - i) rest in
          if m_end m =? m_start m then
            match dropN (m_start m - i) rest with
            | [] => ([(before, m)], [])
            | x :: t =>
                let '(l, tl) := scan_loop r fuel' (m_start m + 1) (Some x) t in
                match l with
                | [] => ([(before, m)], x :: tl)
                | (b, m') :: l' => ((before, m) :: (x :: b, m') :: l', tl)
                end
            end
          else
            let rest' := dropN (m_end m - i) rest in
            let p' := last (takeN (m_end m - i) rest) 0 in
            let '(l, tl) := scan_loop r fuel' (m_end m) (Some p') rest' in
            ((before, m) :: l, tl)
      end
  end.

Definition re_scan (r : cre) (s : str) : list (str * mres) * str :=
  scan_loop r (tt :: units s) 0 None s.

Definition re_sub (r : cre) (f : mres -> str) (s : str) : str :=
  let '(l, tl) := re_scan r s in
  concat (map (fun bm => fst bm ++ f (snd bm)) l) ++ tl.

Definition re_split (r : cre) (s : str) : list str :=
  let '(l, tl) := re_scan r s in map fst l ++ [tl].

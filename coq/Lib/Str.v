(* The str methods the code uses. *)
From Rimu Require Import Base Unicode.

Definition is_space (x : char) : bool := in_ranges x space_ranges.

Fixpoint lstrip (s : str) : str :=
  match s with
  | x :: t => if is_space x then lstrip t else s
  | [] => []
  end.

Definition rstrip (s : str) : str := frev (lstrip (frev s)).
Definition strip (s : str) : str := rstrip (lstrip s).

Fixpoint starts_with (w s : str) : bool :=
  match w with
  | [] => true
  | x :: w' => match s with y :: s' => (x =? y) && starts_with w' s' | [] => false end
  end.

Definition ends_with (w s : str) : bool := starts_with (frev w) (frev s).

Fixpoint drop_prefix (w s : str) : option str :=
  match w with
  | [] => Some s
  | x :: w' => match s with y :: s' => if x =? y then drop_prefix w' s' else None | [] => None end
  end.

(* s.find(w) >= 0 *)
Fixpoint contains (w s : str) : bool :=
  starts_with w s || match s with [] => false | _ :: t => contains w t end.

(* str.replace(old, new) for non-empty old *)
Fixpoint replace_all_fuel (fuel : list unit) (old new s : str) : str :=
  match fuel with
  | [] => s
  | _ :: f =>
      match s with
      | [] => []
      | x :: t =>
          match drop_prefix old s with
          | Some rest => match old with [] => s | _ => new ++ replace_all_fuel f old new rest end
          | None => x :: replace_all_fuel f old new t
          end
      end
  end.

Definition replace_all (old new s : str) : str := replace_all_fuel (tt :: units s) old new s.

(* str.replace(old, new, 1) for non-empty old *)
Fixpoint replace_first (old new s : str) : str :=
  match drop_prefix old s with
  | Some rest => match old with [] => s | _ => new ++ rest end
  | None => match s with [] => [] | x :: t => x :: replace_first old new t end
  end.

(* single-character replace *)
Definition replace_char (a b : char) (s : str) : str := map (fun x => if x =? a then b else x) s.

(* str.split(sep) for a single character separator *)
Fixpoint split_char_aux (sep : char) (s : str) (cur : str) : list str :=
  match s with
  | [] => [frev cur]
  | x :: t => if x =? sep then frev cur :: split_char_aux sep t [] else split_char_aux sep t (x :: cur)
  end.
Definition split_char (sep : char) (s : str) : list str := split_char_aux sep s [].

Fixpoint join (sep : str) (l : list str) : str :=
  match l with
  | [] => []
  | [x] => x
  | x :: t => x ++ sep ++ join sep t
  end.

Definition lower_char (x : char) : str :=
  if (65 <=? x) && (x <=? 90) then [x + 32]
  else if x <? 128 then [x]
  else match find (fun e => fst e =? x) lower_table with
       | Some (_, l) => l
       | None => [x]
       end.

Definition lower (s : str) : str := flat_map lower_char s.

Definition escape_char (x : char) : str :=
  if x =? 38 then $"&amp;" else if x =? 62 then $"&gt;" else if x =? 60 then $"&lt;" else [x].

(* utils.replaceSpecialChars *)
Definition escape (s : str) : str := flat_map escape_char s.

Definition is_empty (s : str) : bool := match s with [] => true | _ => false end.
Definition nonempty (s : str) : bool := negb (is_empty s).

Fixpoint lenN (s : str) : N := match s with [] => 0 | _ :: t => N.succ (lenN t) end.

(* decimal digit value of a Unicode Nd character, if any *)
Fixpoint digit_val_in (x : char) (rs : list (N * N)) : option N :=
  match rs with
  | [] => None
  | (lo, hi) :: t => if (lo <=? x) && (x <=? hi) then Some ((x - lo) mod 10) else digit_val_in x t
  end.
Definition digit_val (x : char) : option N := digit_val_in x digit_ranges.

(* str(int) for non-negative numbers *)
Fixpoint digits_fuel (fuel : nat) (n : N) (acc : str) : str :=
  match fuel with
  | O => acc
  | S f => let acc' := (48 + n mod 10) :: acc in
           if n <? 10 then acc' else digits_fuel f (n / 10) acc'
  end.
Definition str_of_N (n : N) : str := digits_fuel (S (N.to_nat (N.log2 n))) n [].
Definition str_of_Z (z : Z) : str :=
  match z with
  | Z0 => $"0"
  | Zpos p => str_of_N (Npos p)
  | Zneg p => 45 :: str_of_N (Npos p)
  end.
